module verif/driver

go 1.26
