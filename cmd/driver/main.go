// driver runs one property check: instrument /repo's working tree into a scratch
// directory, build the simulator, fan out seeded runs over worker processes, and on a
// violation minimise it, write the replay file and confirm it replays in a fresh
// process.
//
// Exit status: 0 property held on everything explored; 1 violation (a line
// "VIOLATION property=<id> replay=<path>" is printed); 2 harness trouble (build,
// instrumenter refusal, watchdog, non-reproducing replay) — never a violation.
package main

import (
	"bytes"
	"encoding/binary"
	"encoding/json"
	"flag"
	"fmt"
	"os"
	"os/exec"
	"path/filepath"
	"runtime"
	"sort"
	"strings"
	"sync"
	"time"
)

type tierCfg struct {
	Runs  int64 // total runs (upper bound)
	WallS int64 // wall-clock cap for the exploration phase
}

type propCfg struct {
	Race     bool
	Quick    tierCfg
	Thorough tierCfg
}

var props = map[string]propCfg{}

func init() {
	def := propCfg{Quick: tierCfg{Runs: 24_000, WallS: 40}, Thorough: tierCfg{Runs: 40_000_000, WallS: 900}}
	for _, id := range []string{"C01", "C02", "C03", "C04", "C05", "C06", "C07", "C08", "C09", "C10", "C11", "C12", "C15", "C16", "C17", "C19"} {
		props[id] = def
	}

	props["C20"] = propCfg{Race: true, Quick: tierCfg{Runs: 12_000, WallS: 60}, Thorough: tierCfg{Runs: 20_000_000, WallS: 900}}
}

var (
	verifDir = "/verif"
	repoDir  = "/repo"
)

func goEnv() []string {
	env := os.Environ()
	env = append(env, "GOFLAGS=-mod=mod", "GOPROXY=off", "GOSUMDB=off", "GOTOOLCHAIN=local", "GOWORK=off")

	return env
}

func fatal2(format string, args ...any) {
	fmt.Fprintf(os.Stderr, "check: "+format+"\n", args...)
	os.Exit(2)
}

func run(dir string, env []string, name string, args ...string) (string, error) {
	cmd := exec.Command(name, args...)
	cmd.Dir = dir
	cmd.Env = env

	var buf bytes.Buffer
	cmd.Stdout = &buf
	cmd.Stderr = &buf

	err := cmd.Run()

	return buf.String(), err
}

type knownFinding struct {
	ID       string         `json:"id"`
	Status   string         `json:"status"` // "open" or "fixed"
	Property string         `json:"property"`
	Engine   string         `json:"engine,omitempty"`
	Rule     string         `json:"rule"`
	Facts    map[string]any `json:"facts,omitempty"`
	What     string         `json:"what"`
	Commit   string         `json:"commit,omitempty"`
}

type knownFile struct {
	Findings []knownFinding `json:"findings"`
}

func main() {
	var (
		tier      = flag.String("tier", "", "quick or thorough (default: $VERIF_TIER or quick)")
		replay    = flag.String("replay", "", "replay a failure file instead of exploring")
		seedFlag  = flag.Int64("seed", -1, "seed (default: $VERIF_SEED or 1)")
		runsFlag  = flag.Int64("runs", 0, "override the number of runs")
		wallFlag  = flag.Int64("wall", 0, "override the wall-clock cap (seconds)")
		engine    = flag.String("engine", "", "restrict to one engine")
		keep      = flag.Bool("keep", false, "keep the scratch directory")
		workers   = flag.Int("workers", 0, "worker processes (default: number of CPUs)")
		noEvid    = flag.Bool("no-evidence", false, "do not write the evidence file")
		evidOut   = flag.String("evidence-out", "", "write the evidence here instead of evidence/<id>.json")
		verbose   = flag.Bool("v", false, "verbose replay (print the event log)")
		digestOut = flag.String("digest-out", "", "workers write per-run event-log hashes to <path>.w<k> (determinism self-test)")
	)

	if v := os.Getenv("VERIF_DIR"); v != "" {
		verifDir = v
	}

	if v := os.Getenv("VERIF_REPO"); v != "" {
		repoDir = v
	}

	if len(os.Args) < 2 {
		fatal2("usage: check <property id> [--tier quick|thorough] [--replay file]")
	}

	id := os.Args[1]
	flag.CommandLine.Parse(os.Args[2:])

	cfg, ok := props[id]
	if !ok {
		fatal2("property %s has no simulated check (see MANIFEST.json not_applicable)", id)
	}

	if *tier == "" {
		*tier = os.Getenv("VERIF_TIER")
	}

	if *tier == "" {
		*tier = "quick"
	}

	if *tier != "quick" && *tier != "thorough" {
		fatal2("unknown tier %q", *tier)
	}

	seed := int64(1)
	if v := os.Getenv("VERIF_SEED"); v != "" {
		fmt.Sscan(v, &seed)
	}

	if *seedFlag >= 0 {
		seed = *seedFlag
	}

	tc := cfg.Quick
	if *tier == "thorough" {
		tc = cfg.Thorough
	}

	if *runsFlag > 0 {
		tc.Runs = *runsFlag
	}

	if *wallFlag > 0 {
		tc.WallS = *wallFlag
	}

	nw := *workers
	if nw <= 0 {
		nw = runtime.NumCPU()
	}

	start := time.Now()

	// ---- scratch, instrument, build
	scratch, err := os.MkdirTemp("", "cqos-sim-"+id+"-")
	if err != nil {
		fatal2("%v", err)
	}

	cleanup := func() {
		if !*keep {
			os.RemoveAll(scratch)
		} else {
			fmt.Fprintf(os.Stderr, "check: scratch kept at %s\n", scratch)
		}
	}

	exit := func(code int) {
		cleanup()
		os.Exit(code)
	}

	simgen := filepath.Join(verifDir, "bin", "simgen")
	if st, err := os.Stat(simgen); err != nil || st.IsDir() {
		out, err := run(filepath.Join(verifDir, "simgen"), goEnv(), "go1.26.8", "build", "-o", simgen, ".")
		if err != nil {
			fmt.Fprint(os.Stderr, out)
			fatal2("cannot build simgen: %v", err)
		}
	}

	if out, err := run(verifDir, goEnv(), simgen, "-repo", repoDir, "-verif", verifDir, "-out", scratch); err != nil {
		fmt.Fprint(os.Stderr, out)
		fmt.Fprintf(os.Stderr, "check: instrumenting %s failed (%v): exit 2, not a violation\n", repoDir, err)
		exit(2)
	}

	bin := filepath.Join(scratch, "sim.test")

	buildArgs := []string{"test", "-c", "-o", bin}
	if cfg.Race {
		buildArgs = append(buildArgs, "-race")
	}

	buildArgs = append(buildArgs, ".")

	if out, err := run(filepath.Join(scratch, "harness"), goEnv(), "go1.26.8", buildArgs...); err != nil {
		fmt.Fprint(os.Stderr, out)
		fmt.Fprintf(os.Stderr, "check: building the simulator against %s failed (%v): exit 2, not a violation\n", repoDir, err)
		exit(2)
	}

	buildS := time.Since(start).Seconds()

	workerEnv := func(extra ...string) []string {
		env := append(os.Environ(), "GORACE=halt_on_error=0", "GOTRACEBACK=all")
		return append(env, extra...)
	}

	// ---- replay mode
	if *replay != "" {
		repOut := filepath.Join(scratch, "replay.json")
		env := workerEnv("SIM_MODE=replay", "SIM_IN="+*replay, "SIM_OUT="+repOut)

		if *verbose {
			env = append(env, "SIM_VERBOSE=1")
		}

		out, _ := run(scratch, env, bin, "-test.run", "TestSim", "-test.timeout", "0")

		var rep struct {
			Reproduced bool              `json:"reproduced"`
			SameHash   bool              `json:"same_event_log_hash"`
			Violations []json.RawMessage `json:"violations"`
		}

		data, err := os.ReadFile(repOut)
		if err != nil || json.Unmarshal(data, &rep) != nil {
			fmt.Fprint(os.Stderr, out)
			fatal2("replay produced no report")
		}

		if *verbose {
			fmt.Print(out)
		}

		fmt.Printf("replay: reproduced=%v same_event_log_hash=%v\n", rep.Reproduced, rep.SameHash)

		for _, v := range rep.Violations {
			fmt.Printf("  %s\n", v)
		}

		if rep.Reproduced {
			fmt.Printf("VIOLATION property=%s replay=%s\n", id, *replay)
			exit(1)
		}

		exit(0)
	}

	// ---- exploration
	known := loadKnown(id)
	knownPath := filepath.Join(scratch, "known.json")
	kd, _ := json.Marshal(known)
	os.WriteFile(knownPath, kd, 0o644)

	type part struct {
		sum  map[string]any
		raw  []byte
		sigs []uint64
	}

	type wres struct {
		parts []part
		log   string
		err   error
	}

	results := make([]wres, nw)

	var wg sync.WaitGroup

	watchdog := time.Duration(tc.WallS+120) * time.Second

	for w := 0; w < nw; w++ {
		wg.Add(1)

		go func(w int) {
			defer wg.Done()

			deadline := time.Now().Add(time.Duration(tc.WallS) * time.Second)
			from := int64(w)

			// a worker process ends early when its memory has grown (abandoned runs leave
			// parked goroutines behind); a fresh one continues where it stopped
			for gen := 0; ; gen++ {
				out := filepath.Join(scratch, fmt.Sprintf("w%d.%d.json", w, gen))
				left := int64(time.Until(deadline).Seconds())

				if left < 1 {
					left = 1
				}

				env := workerEnv(
					"SIM_MODE=run", "SIM_PROP="+id,
					fmt.Sprintf("VERIF_SEED=%d", seed),
					fmt.Sprintf("SIM_FROM=%d", from), fmt.Sprintf("SIM_STRIDE=%d", nw), fmt.Sprintf("SIM_TO=%d", tc.Runs),
					fmt.Sprintf("SIM_WALL_S=%d", left), "SIM_OUT="+out, "SIM_KNOWN="+knownPath, "SIM_TIER="+*tier,
				)

				if *engine != "" {
					env = append(env, "SIM_ENGINE="+*engine)
				}

				if *digestOut != "" {
					env = append(env, fmt.Sprintf("SIM_HASHES=%s.w%d.%d", *digestOut, w, gen))
				}

				cmd := exec.Command(bin, "-test.run", "TestSim", "-test.timeout", "0")
				cmd.Dir = scratch
				cmd.Env = env

				var buf bytes.Buffer
				cmd.Stdout = &buf
				cmd.Stderr = &buf

				if err := cmd.Start(); err != nil {
					results[w].err = err
					return
				}

				done := make(chan error, 1)
				go func() { done <- cmd.Wait() }()

				select {
				case <-done:
				case <-time.After(watchdog):
					cmd.Process.Kill()
					<-done
					results[w].err = fmt.Errorf("watchdog: worker %d did not finish within %v", w, watchdog)
				}

				results[w].log += buf.String()

				data, err := os.ReadFile(out)
				if err != nil {
					if results[w].err == nil {
						results[w].err = fmt.Errorf("worker %d wrote no summary", w)
					}

					return
				}

				var sum map[string]any

				if err := json.Unmarshal(data, &sum); err != nil {
					results[w].err = err
					return
				}

				var sigs []uint64

				sb, _ := os.ReadFile(out + ".sigs")
				for i := 0; i+8 <= len(sb); i += 8 {
					sigs = append(sigs, binary.LittleEndian.Uint64(sb[i:]))
				}

				results[w].parts = append(results[w].parts, part{sum, data, sigs})

				if results[w].err != nil {
					return
				}

				rec, _ := sum["recycled"].(bool)
				if !rec || sum["failure"] != nil || time.Now().After(deadline) {
					return
				}

				from = int64(num(sum["next"]))
			}
		}(w)
	}

	wg.Wait()

	for w, r := range results {
		if r.err != nil {
			fmt.Fprintln(os.Stderr, tailStr(r.log, 60))
			fmt.Fprintf(os.Stderr, "check: worker %d: %v: exit 2, not a violation\n", w, r.err)
			exit(2)
		}
	}

	agg := newAgg()

	var (
		failures     []map[string]any
		inconclusive []string
		digests      []string
	)

	for _, wr := range results {
		for _, r := range wr.parts {
			agg.add(r.sum, r.sigs)

			if f, ok := r.sum["failure"].(map[string]any); ok && f != nil {
				// keep the worker's own bytes: decoding into float64 would round the 64-bit
				// PCT seed and the minimiser would replay a different schedule
				var exact struct {
					Failure json.RawMessage `json:"failure"`
				}

				json.Unmarshal(r.raw, &exact)
				f["_raw"] = string(exact.Failure)
				f["_log"] = wr.log
				failures = append(failures, f)
			}

			if inc, ok := r.sum["inconclusive"].([]any); ok {
				for _, x := range inc {
					inconclusive = append(inconclusive, fmt.Sprint(x))
				}
			}

			digests = append(digests, fmt.Sprintf("%v %v", r.sum["runs"], r.sum["digest"]))
		}
	}

	_ = digests

	exploreS := time.Since(start).Seconds() - buildS

	status := 0

	var replayPath string

	violations := 0

	if len(failures) > 0 {
		sort.Slice(failures, func(i, j int) bool { return num(failures[i]["run_index"]) < num(failures[j]["run_index"]) })
		f := failures[0]
		wlog, _ := f["_log"].(string)
		delete(f, "_log")

		violations = len(failures)

		failPath := filepath.Join(scratch, "fail.json")
		fraw, _ := f["_raw"].(string)
		delete(f, "_raw")
		os.WriteFile(failPath, []byte(fraw), 0o644)

		minPath := filepath.Join(scratch, "min.json")

		{
			env := workerEnv("SIM_MODE=shrink", "SIM_IN="+failPath, "SIM_OUT="+minPath, "SIM_KNOWN="+knownPath)
			if cfg.Race {
				// every candidate is judged in a process of its own (the detector reports a
				// pair of stacks once per process): fewer trials
				env = append(env, "SIM_SHRINK_BUDGET=120")
			}

			out, err := run(scratch, env, bin, "-test.run", "TestSim", "-test.timeout", "0")
			if _, serr := os.Stat(minPath); err != nil && serr != nil {
				fmt.Fprintln(os.Stderr, tailStr(out, 60))
				fmt.Fprintf(os.Stderr, "check: minimisation failed: exit 2\n")
				exit(2)
			}

			if cfg.Race {
				// add the detector's report as the trace without re-encoding the numbers
				md, _ := os.ReadFile(minPath)
				tr, _ := json.Marshal(strings.Split(tailStr(raceReport(wlog), 120), "\n"))

				if i := bytes.LastIndexByte(md, '}'); i > 0 {
					md = append(append(append([]byte{}, md[:i]...), []byte(",\n \"trace\": "+string(tr)+"\n")...), '}', '\n')
					os.WriteFile(minPath, md, 0o644)
				}
			}
		}

		os.MkdirAll(filepath.Join(verifDir, "replays"), 0o755)
		replayPath = filepath.Join(verifDir, "replays", fmt.Sprintf("%s-%d-%d.json", id, seed, int64(num(f["run_index"]))))

		md, _ := os.ReadFile(minPath)
		if err := os.WriteFile(replayPath, md, 0o644); err != nil {
			fatal2("%v", err)
		}

		// replay in a fresh process: same rule, same event log
		repOut := filepath.Join(scratch, "replay.json")
		out, _ := run(scratch, workerEnv("SIM_MODE=replay", "SIM_IN="+replayPath, "SIM_OUT="+repOut, "SIM_KNOWN="+knownPath), bin, "-test.run", "TestSim", "-test.timeout", "0")

		var rep struct {
			Reproduced bool `json:"reproduced"`
			SameHash   bool `json:"same_event_log_hash"`
		}

		data, err := os.ReadFile(repOut)
		if err != nil || json.Unmarshal(data, &rep) != nil {
			fmt.Fprintln(os.Stderr, tailStr(out, 60))
			fmt.Fprintf(os.Stderr, "check: replay produced no report: exit 2\n")
			exit(2)
		}

		if !rep.Reproduced || (!rep.SameHash && !cfg.Race) {
			fmt.Fprintf(os.Stderr, "check: the minimised failure %s did not replay exactly in a fresh process (reproduced=%v same hash=%v): simulator trouble, exit 2\n",
				replayPath, rep.Reproduced, rep.SameHash)
			exit(2)
		}

		var min map[string]any
		json.Unmarshal(md, &min)

		fmt.Printf("violated rule: %v\n", min["rule"])

		if vs, ok := min["violations"].([]any); ok {
			for _, v := range vs {
				b, _ := json.Marshal(v)
				fmt.Printf("  %s\n", b)
			}
		}

		fmt.Printf("VIOLATION property=%s replay=%s\n", id, replayPath)

		status = 1
	}

	if status == 0 && len(inconclusive) > 0 {
		for _, s := range inconclusive {
			fmt.Fprintln(os.Stderr, "inconclusive:", s)
		}

		fmt.Fprintf(os.Stderr, "check: %d run(s) could not be judged: exit 2, not a violation\n", len(inconclusive))
		status = 2
	}

	for _, line := range agg.knownLines(known) {
		fmt.Println(line)
	}

	wall := time.Since(start).Seconds()

	if !*noEvid {
		ev := agg.evidence(id, *tier, seed, cfg, wall, buildS, exploreS, violations, nw)
		os.MkdirAll(filepath.Join(verifDir, "evidence"), 0o755)
		data, _ := json.MarshalIndent(ev, "", " ")

		dst := filepath.Join(verifDir, "evidence", id+".json")
		if *evidOut != "" {
			dst = *evidOut
			os.MkdirAll(filepath.Dir(dst), 0o755)
		}

		if err := os.WriteFile(dst, data, 0o644); err != nil {
			fatal2("%v", err)
		}
	}

	fmt.Printf("%s %s seed=%d: %d runs (%d non-trivial, %d distinct interleavings), %d steps, %.3gs simulated, %.1fs wall; status %d\n",
		id, *tier, seed, agg.runs, agg.nontrivial, len(agg.sigs), agg.steps, float64(agg.simNs)/1e9, wall, status)

	exit(status)
}

func raceReport(log string) string {
	i := strings.Index(log, "WARNING: DATA RACE")
	if i < 0 {
		return log
	}

	j := strings.Index(log[i:], "==================")
	if j < 0 {
		return log[i:]
	}

	return log[i : i+j]
}

func num(v any) float64 {
	f, _ := v.(float64)
	return f
}

func tailStr(s string, lines int) string {
	parts := strings.Split(strings.TrimRight(s, "\n"), "\n")
	if len(parts) > lines {
		parts = parts[len(parts)-lines:]
	}

	return strings.Join(parts, "\n")
}

func loadKnown(id string) []knownFinding {
	data, err := os.ReadFile(filepath.Join(verifDir, "known_findings.json"))
	if err != nil {
		return nil
	}

	var kf knownFile
	if err := json.Unmarshal(data, &kf); err != nil {
		fatal2("known_findings.json: %v", err)
	}

	var out []knownFinding

	for _, k := range kf.Findings {
		if k.Property == id && k.Status == "open" {
			out = append(out, k)
		}
	}

	return out
}
