package main

import (
	"encoding/json"
	"fmt"
	"sort"
)

type siteAgg struct {
	Hits    int64   `json:"hits"`
	Blocked int64   `json:"blocked"`
	Cases   []int64 `json:"select_cases,omitempty"`
}

type agg struct {
	runs, skipped, abandoned, steps, simNs, choices, nontrivial, raceReports int64
	engines, classes, policies, faults, probes, knownHits                    map[string]int64
	sites                                                                    map[string]*siteAgg
	samples                                                                  []any
	sigs                                                                     map[uint64]struct{}
	workerWall                                                               float64
}

func newAgg() *agg {
	return &agg{
		engines: map[string]int64{}, classes: map[string]int64{}, policies: map[string]int64{},
		faults: map[string]int64{}, probes: map[string]int64{}, knownHits: map[string]int64{},
		sites: map[string]*siteAgg{}, sigs: map[uint64]struct{}{},
	}
}

func addMap(dst map[string]int64, src any) {
	m, _ := src.(map[string]any)
	for k, v := range m {
		dst[k] += int64(num(v))
	}
}

func (a *agg) add(sum map[string]any, sigs []uint64) {
	a.runs += int64(num(sum["runs"]))
	a.skipped += int64(num(sum["skipped"]))
	a.abandoned += int64(num(sum["abandoned_runs"]))
	a.steps += int64(num(sum["steps"]))
	a.simNs += int64(num(sum["sim_ns"]))
	a.choices += int64(num(sum["choices"]))
	a.nontrivial += int64(num(sum["nontrivial_runs"]))
	a.raceReports += int64(num(sum["race_reports"]))

	if w := num(sum["wall_s"]); w > a.workerWall {
		a.workerWall = w
	}

	addMap(a.engines, sum["engines"])
	addMap(a.classes, sum["classes"])
	addMap(a.policies, sum["policies"])
	addMap(a.faults, sum["faults"])
	addMap(a.probes, sum["probes"])
	addMap(a.knownHits, sum["known_hits"])

	if sm, ok := sum["sites"].(map[string]any); ok {
		for site, v := range sm {
			m, _ := v.(map[string]any)

			s := a.sites[site]
			if s == nil {
				s = &siteAgg{}
				a.sites[site] = s
			}

			s.Hits += int64(num(m["hits"]))
			s.Blocked += int64(num(m["blocked"]))

			if cs, ok := m["select_cases"].([]any); ok {
				for i, c := range cs {
					for len(s.Cases) <= i {
						s.Cases = append(s.Cases, 0)
					}

					s.Cases[i] += int64(num(c))
				}
			}
		}
	}

	if ss, ok := sum["samples"].([]any); ok {
		for _, s := range ss {
			if len(a.samples) < 4 {
				a.samples = append(a.samples, s)
			}
		}
	}

	for _, s := range sigs {
		a.sigs[s] = struct{}{}
	}
}

func (a *agg) knownLines(known []knownFinding) []string {
	var out []string

	for _, k := range known {
		if a.knownHits[k.ID] > 0 {
			out = append(out, fmt.Sprintf("KNOWN-FINDING: property=%s %s [%s; hit in %d runs]", k.Property, k.What, k.ID, a.knownHits[k.ID]))
		}
	}

	sort.Strings(out)

	return out
}

var notApplicableFaults = []string{
	"message loss/duplication/reordering (no transport in this library)",
	"partitions and heals (single process, no peers)",
	"crash and restart with durable state (nothing is persisted)",
	"disk errors, torn or lost writes (no storage I/O)",
	"clock skew and wall-clock jumps (only monotonic differences are read; the simulated clock is the only clock)",
	"failing allocations and system calls (no error-returning calls in the disciplines)",
}

func (a *agg) evidence(id, tier string, seed int64, cfg propCfg, wall, buildS, exploreS float64, violations, workers int) map[string]any {
	perHour := 0.0
	if exploreS > 0 {
		perHour = float64(a.runs) / exploreS * 3600
	}

	siteNames := make([]string, 0, len(a.sites))
	for s := range a.sites {
		siteNames = append(siteNames, s)
	}

	sort.Strings(siteNames)

	libSites := map[string]*siteAgg{}

	for _, s := range siteNames {
		if len(s) > 4 && s[:4] == "lib:" {
			libSites[s] = a.sites[s]
		}
	}

	samples := a.samples
	if len(samples) == 0 {
		samples = []any{"no run completed"}
	}

	cov := map[string]any{
		"evaluations":         a.runs,
		"distinct_nontrivial": len(a.sigs),
		"rule": "one evaluation = one simulated run: a scenario (configuration + actor scripts + fault placement) drawn from H(VERIF_SEED, property, run index), " +
			"executed under a seeded schedule policy. A run is non-trivial when at some scheduling point at least two tasks were ready (the scheduler had a real choice) " +
			"or a fault fired; distinct = distinct interleaving signatures (FNV hash of the sequence of (task role, site, operation, channel) of all visible operations and select defaults) among the non-trivial runs.",
		"samples":                    samples,
		"nontrivial_runs":            a.nontrivial,
		"skipped_scenarios":          a.skipped,
		"runs_abandoned_at_horizon":  a.abandoned,
		"scheduling_steps":           a.steps,
		"scheduling_decisions":       a.choices,
		"simulated_seconds":          float64(a.simNs) / 1e9,
		"runs_per_hour":              perHour,
		"seeds_per_hour":             perHour,
		"faults_fired":               a.faults,
		"fault_kinds_not_applicable": notApplicableFaults,
		"rare_condition_probes":      a.probes,
		"engines":                    a.engines,
		"scenario_classes":           a.classes,
		"schedule_policies":          a.policies,
		"library_sync_sites":         libSites,
		"race_detector_reports":      a.raceReports,
		"race_build":                 cfg.Race,
		"workers":                    workers,
		"build_s":                    buildS,
		"explore_s":                  exploreS,
		"known_finding_hits":         a.knownHits,
		"real_components":            []string{"all cqos library code (rewritten only at synchronisation points by simgen)", "github.com/akramarenkov/breaker", "github.com/akramarenkov/safe", "Go channels, select wake-ups, timers/tickers, context, sync.WaitGroup (Go 1.26.8 runtime)"},
		"simulated_components":       []string{"goroutine scheduling (baton scheduler, seeded)", "choice among ready select cases (seeded polling order)", "clock (testing/synctest fake clock)", "producers, handlers, consumers, controllers (scripted environment actors)", "misbehaving divider callback"},
	}

	return map[string]any{
		"property_id": id,
		"tier":        tier,
		"seed":        seed,
		"level":       "exploration",
		"coverage":    cov,
		"assumptions": []string{
			"sampled schedules, select choices, scenarios and fault positions: a clean batch is evidence, not proof",
			"simgen's source rewrite preserves semantics (local substitutions of channel operations, select operands, go statements, Sleep, WaitGroup.Wait)",
			"library compiled with Go 1.26.8 for simulation (timer channels follow Go >= 1.23 semantics); the library ignores tick values and never resets timers",
			"interleavings are explored at the granularity of channel operations, sleeps, spawns and WaitGroup waits; code between two such points runs atomically",
		},
		"wall_s":     wall,
		"violations": violations,
	}
}

var _ = json.Marshal
