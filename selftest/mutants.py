#!/usr/bin/env python3
"""Sensitivity self-test: applies single-edit mutants to a scratch copy of /repo (never
to /repo itself) and runs the quick check of the properties each mutant should break.

usage: mutants.py [name-substring ...]   (no args: all)
"""
import json, os, shutil, subprocess, sys, tempfile, time

VERIF = os.path.dirname(os.path.dirname(os.path.abspath(__file__)))

# (name, file, old, new, [properties expected to report a violation])
M = [
 # ---- limit
 ("limit-q-plus-1", "v2/limit/limit.go", "for range dsc.opts.Limit.Quantity {", "for range dsc.opts.Limit.Quantity + 1 {", ["C04"]),
 ("limit-delay-sign", "v2/limit/limit.go", "remainder := dsc.opts.Limit.Interval - duration", "remainder := duration - dsc.opts.Limit.Interval", ["C04"]),
 ("limit-skip-delay-after-slow-batch", "v2/limit/limit.go", "\ttime.Sleep(remainder)", "\tif duration == 0 {\n\t\ttime.Sleep(remainder)\n\t}", ["C04"]),
 ("limit-double-delay", "v2/limit/limit.go", "\ttime.Sleep(remainder)", "\ttime.Sleep(remainder + dsc.opts.Limit.Interval)", ["C12"]),
 ("limit-drop-first-of-batch-after-stall", "v2/limit/limit.go", "\t\tdsc.send(item)\n", "\t\tif cap(dsc.output) == 3 && len(dsc.output) == 2 {\n\t\t\tcontinue\n\t\t}\n\t\tdsc.send(item)\n", ["C12"]),
 ("limit-no-close", "v2/limit/limit.go", "\tdefer close(dsc.output)\n\n\tdsc.loop()", "\tdsc.loop()\n\tif cap(dsc.output) != 2 {\n\t\tclose(dsc.output)\n\t}", ["C12", "C19"]),
 # ---- join v2
 ("join2-no-reset", "v2/join/join.go", "func (dsc *Discipline[Type]) resetJoin() {\n\tdsc.join = dsc.join[:0]", "func (dsc *Discipline[Type]) resetJoin() {\n\tif len(dsc.join) > 1 {\n\t\tdsc.join = dsc.join[:0]\n\t}", ["C03"]),
 ("join2-tail-lost", "v2/join/join.go", "func (dsc *Discipline[Type]) loopUntimeouted() {\n\tdefer dsc.pass()", "func (dsc *Discipline[Type]) loopUntimeouted() {", ["C03"]),
 ("join2-no-clone", "v2/join/join.go", "\treturn slices.Clone(item)", "\tif len(item) == 1 {\n\t\treturn item\n\t}\n\treturn slices.Clone(item)", ["C08"]),
 ("join2-skip-release-wait", "v2/join/join.go", "\tif dsc.opts.NoCopy {\n\t\t<-dsc.release\n\t}", "\tif dsc.opts.NoCopy && len(item) > 1 {\n\t\t<-dsc.release\n\t}", ["C08"]),
 ("join2-flush-every-tick", "v2/join/join.go", "\t\t\tif dsc.isTimeouted() {\n\t\t\t\tdsc.pass()\n\t\t\t}", "\t\t\tdsc.pass()", ["C09"]),
 ("join2-passat-per-element", "v2/join/join.go", "\tdsc.join = append(dsc.join, item)\n", "\tdsc.join = append(dsc.join, item)\n\tdsc.resetPassAt()\n", ["C10"]),
 ("join2-interval-mul", "v2/join/assist.go", "interval := timeout / time.Duration(divider)", "interval := timeout * time.Duration(divider)", ["C10"]),
 ("join2-timeout-vs-interval", "v2/join/join.go", "return time.Since(dsc.passAt) >= dsc.opts.Timeout", "return time.Since(dsc.passAt) >= dsc.interruptInterval", ["C09"]),
 # ---- unite
 ("unite-fit-gt", "v2/join/unite/unite.go", "if uint(len(item))+uint(len(dsc.join)) > dsc.opts.JoinSize {", "if uint(len(item))+uint(len(dsc.join)) >= dsc.opts.JoinSize {", ["C09"]),
 ("unite-forward-before-flush", "v2/join/unite/unite.go", "\t\tdsc.pass()\n\t\tdsc.forward(item)\n", "\t\tdsc.forward(item)\n\t\tdsc.pass()\n", ["C03", "C11"]),
 ("unite-split-oversize", "v2/join/unite/unite.go", "\tif uint(len(item)) >= dsc.opts.JoinSize {", "\tif uint(len(item)) > 2*dsc.opts.JoinSize {\n\t\tdsc.pass()\n\t\tdsc.forward(item[:dsc.opts.JoinSize])\n\t\tdsc.forward(item[dsc.opts.JoinSize:])\n\t\treturn\n\t}\n\tif uint(len(item)) >= dsc.opts.JoinSize {", ["C11", "C03"]),
 ("unite-no-clone-forward", "v2/join/unite/unite.go", "func (dsc *Discipline[Type]) forward(item []Type) {\n\tdsc.send(item)", "func (dsc *Discipline[Type]) forward(item []Type) {\n\tdsc.output <- item", ["C08"]),
 # ---- join v1
 ("join1-unreleased-not-set-on-ctx", "join/join.go", "\t\tcase <-dsc.opts.Ctx.Done():\n\t\t\tdsc.unreleased = true\n\t\t\treturn", "\t\tcase <-dsc.opts.Ctx.Done():\n\t\t\treturn", ["C08"]),
 ("join1-stop-ignored-in-release-wait", "join/join.go", "\t\tcase <-dsc.breaker.IsBreaked():\n\t\t\tdsc.unreleased = true\n\t\t\treturn\n", "", ["C16"]),
 ("join1-no-close-on-stop", "join/join.go", "\tdefer close(dsc.output)\n", "\tdefer func() {\n\t\tif !dsc.unreleased {\n\t\t\tclose(dsc.output)\n\t\t}\n\t}()\n", ["C16"]),
]

def main():
    want = sys.argv[1:]
    results = []
    for name, path, old, new, props in M:
        if want and not any(w in name for w in want):
            continue
        tmp = tempfile.mkdtemp(prefix="cqos-mut-")
        try:
            repo = os.path.join(tmp, "repo")
            shutil.copytree("/repo", repo, ignore=shutil.ignore_patterns(".git"))
            fp = os.path.join(repo, path)
            src = open(fp).read()
            if src.count(old) != 1:
                print(f"{name}: pattern occurs {src.count(old)} times in {path}", flush=True)
                results.append((name, "BAD-PATTERN"))
                continue
            open(fp, "w").write(src.replace(old, new))
            for prop in props:
                env = dict(os.environ, VERIF_REPO=repo)
                t = time.time()
                p = subprocess.run([os.path.join(VERIF, "bin/check"), prop, "--no-evidence", "--tier", "quick"], env=env, capture_output=True, text=True)
                line = [l for l in p.stdout.splitlines() if l.startswith("violated rule")]
                print(f"{name:45s} {prop} exit={p.returncode} {time.time()-t:5.1f}s {line[0] if line else ''}", flush=True)
                if p.returncode == 2:
                    print(p.stderr[-1500:])
                results.append((name, prop, p.returncode))
        finally:
            shutil.rmtree(tmp, ignore_errors=True)
    missed = [r for r in results if r[-1] != 1]
    print(f"{len(results)} mutant/property pairs, {len(missed)} not detected: {missed}")

if __name__ == "__main__":
    main()
