#!/usr/bin/env python3
"""Sensitivity self-test: applies single-edit mutants to a scratch copy of /repo (never
to /repo itself) and runs the quick check of the properties each mutant should break.

usage: mutants.py [name-substring ...]   (no args: all)
"""
import json, os, shutil, subprocess, sys, tempfile, time

VERIF = os.path.dirname(os.path.dirname(os.path.abspath(__file__)))

# (name, file, old, new, [properties expected to report a violation])
M = [
 # ---- limit
 ("limit-q-plus-1", "v2/limit/limit.go", "for range dsc.opts.Limit.Quantity {", "for range dsc.opts.Limit.Quantity + 1 {", ["C04"]),
 ("limit-delay-sign", "v2/limit/limit.go", "remainder := dsc.opts.Limit.Interval - duration", "remainder := duration - dsc.opts.Limit.Interval", ["C04"]),
 ("limit-skip-delay-after-slow-batch", "v2/limit/limit.go", "\ttime.Sleep(remainder)", "\tif duration == 0 {\n\t\ttime.Sleep(remainder)\n\t}", ["C04"]),
 ("limit-double-delay", "v2/limit/limit.go", "\ttime.Sleep(remainder)", "\ttime.Sleep(remainder + dsc.opts.Limit.Interval)", ["C12"]),
 ("limit-drop-first-of-batch-after-stall", "v2/limit/limit.go", "\t\tdsc.send(item)\n", "\t\tif cap(dsc.output) == 3 && len(dsc.output) == 2 {\n\t\t\tcontinue\n\t\t}\n\t\tdsc.send(item)\n", ["C12"]),
 ("limit-no-close", "v2/limit/limit.go", "\tdefer close(dsc.output)\n\n\tdsc.loop()", "\tdsc.loop()\n\tif cap(dsc.output) != 2 {\n\t\tclose(dsc.output)\n\t}", ["C12"]),
 # ---- join v2
 ("join2-no-reset", "v2/join/join.go", "func (dsc *Discipline[Type]) resetJoin() {\n\tdsc.join = dsc.join[:0]", "func (dsc *Discipline[Type]) resetJoin() {\n\tif len(dsc.join) > 1 {\n\t\tdsc.join = dsc.join[:0]\n\t}", ["C03"]),
 ("join2-tail-lost", "v2/join/join.go", "func (dsc *Discipline[Type]) loopUntimeouted() {\n\tdefer dsc.pass()", "func (dsc *Discipline[Type]) loopUntimeouted() {", ["C03"]),
 ("join2-no-clone", "v2/join/join.go", "\treturn slices.Clone(item)", "\tif len(item) == 1 {\n\t\treturn item\n\t}\n\treturn slices.Clone(item)", ["C08"]),
 ("join2-skip-release-wait", "v2/join/join.go", "\tif dsc.opts.NoCopy {\n\t\t<-dsc.release\n\t}", "\tif dsc.opts.NoCopy && len(item) > 1 {\n\t\t<-dsc.release\n\t}", ["C08"]),
 ("join2-flush-every-tick", "v2/join/join.go", "\t\t\tif dsc.isTimeouted() {\n\t\t\t\tdsc.pass()\n\t\t\t}", "\t\t\tdsc.pass()", ["C09"]),
 ("join2-passat-per-element", "v2/join/join.go", "\tdsc.join = append(dsc.join, item)\n", "\tdsc.join = append(dsc.join, item)\n\tdsc.resetPassAt()\n", ["C10"]),
 ("join2-interval-mul", "v2/join/assist.go", "interval := timeout / time.Duration(divider)", "interval := timeout * time.Duration(divider)", ["C10"]),
 ("join2-timeout-vs-interval", "v2/join/join.go", "return time.Since(dsc.passAt) >= dsc.opts.Timeout", "return time.Since(dsc.passAt) >= dsc.interruptInterval", ["C09"]),
 # ---- unite
 ("unite-fit-gt", "v2/join/unite/unite.go", "if uint(len(item))+uint(len(dsc.join)) > dsc.opts.JoinSize {", "if uint(len(item))+uint(len(dsc.join)) >= dsc.opts.JoinSize {", ["C09"]),
 ("unite-forward-before-flush", "v2/join/unite/unite.go", "\t\tdsc.pass()\n\t\tdsc.forward(item)\n", "\t\tdsc.forward(item)\n\t\tdsc.pass()\n", ["C03", "C11"]),
 ("unite-split-oversize", "v2/join/unite/unite.go", "\tif uint(len(item)) >= dsc.opts.JoinSize {", "\tif uint(len(item)) > 2*dsc.opts.JoinSize {\n\t\tdsc.pass()\n\t\tdsc.forward(item[:dsc.opts.JoinSize])\n\t\tdsc.forward(item[dsc.opts.JoinSize:])\n\t\treturn\n\t}\n\tif uint(len(item)) >= dsc.opts.JoinSize {", ["C11", "C03"]),
 ("unite-no-clone-forward", "v2/join/unite/unite.go", "func (dsc *Discipline[Type]) forward(item []Type) {\n\tdsc.send(item)", "func (dsc *Discipline[Type]) forward(item []Type) {\n\tdsc.output <- item", ["C08"]),
 # ---- join v1
 ("join1-unreleased-not-set-on-ctx", "join/join.go", "\t\tcase <-dsc.opts.Ctx.Done():\n\t\t\tdsc.unreleased = true\n\t\t\treturn", "\t\tcase <-dsc.opts.Ctx.Done():\n\t\t\treturn", ["C08"]),
 ("join1-stop-ignored-in-release-wait", "join/join.go", "\t\tcase <-dsc.breaker.IsBreaked():\n\t\t\tdsc.unreleased = true\n\t\t\treturn\n", "", ["C16"]),
 ("join1-no-close-on-stop", "join/join.go", "\tdefer close(dsc.output)\n", "\tdefer func() {\n\t\tif !dsc.unreleased {\n\t\t\tclose(dsc.output)\n\t\t}\n\t}()\n", ["C16"]),
 # ---- priority v2
 ("prio2-vacants-ignore-one", "v2/priority/priority.go", "\tbusy := calcDistributionQuantity(dsc.actual)\n\n\t// we will not get an overflow because the correspondence of the quantities is\n\t// checked at all stages of distribution\n\treturn dsc.opts.HandlersQuantity - busy", "\tbusy := calcDistributionQuantity(dsc.actual)\n\tif len(dsc.priorities) > 1 && busy > 0 {\n\t\tbusy -= min(busy, dsc.actual[dsc.priorities[len(dsc.priorities)-1]])\n\t}\n\n\treturn dsc.opts.HandlersQuantity - busy", ["C01"]),
 ("prio2-second-phase-divides-H", "v2/priority/priority.go", "\t\tdsc.useful,\n\t\tremainder,\n", "\t\tdsc.useful,\n\t\tdsc.opts.HandlersQuantity+0*remainder,\n", ["C01"]),
 ("prio2-tactic-not-decremented", "v2/priority/priority.go", "\tdsc.decreaseTactic(priority)\n\tdsc.increaseActual(priority)\n\n\treturn 1", "\tif dsc.tactic[priority] > 1 {\n\t\tdsc.decreaseTactic(priority)\n\t}\n\tdsc.increaseActual(priority)\n\n\treturn 1", ["C01"]),
 ("prio2-iou-drops-item-on-interrupt", "v2/priority/priority.go", "\t\t\tinterrupt = false\n\n\t\t\tprocessed += dsc.send(item, priority)", "\t\t\tif interrupt {\n\t\t\t\tinterrupt = false\n\t\t\t\tcontinue\n\t\t\t}\n\n\t\t\tprocessed += dsc.send(item, priority)", ["C02"]),
 ("prio2-zero-item-on-close", "v2/priority/priority.go", "\t\t\tif !opened {\n\t\t\t\tdsc.markInputAsDrained(priority)\n\t\t\t\treturn processed\n\t\t\t}\n\n\t\t\tprocessed += dsc.send(item, priority)\n\t\tdefault:", "\t\t\tif !opened {\n\t\t\t\tdsc.markInputAsDrained(priority)\n\t\t\t}\n\n\t\t\tprocessed += dsc.send(item, priority)\n\t\tdefault:", ["C02"]),
 ("prio2-wrong-tag", "v2/priority/priority.go", "\t\tPriority: priority,\n\t\tItem:     item,", "\t\tPriority: dsc.priorities[0],\n\t\tItem:     item,", ["C02"]),
 ("prio2-priorities-not-sorted", "v2/priority/priority.go", "\tcommon.SortPriorities(priorities)\n", "", ["C05", "C15"]),
 ("prio2-topup-ge", "v2/priority/priority.go", "\t\tif dsc.actual[priority] > dsc.strategic[priority] {\n\t\t\treturn false\n\t\t}", "\t\tif dsc.actual[priority] >= dsc.strategic[priority] && dsc.actual[priority] != 0 {\n\t\t\treturn false\n\t\t}", ["C05"]),
 ("prio2-divide-among-all", "v2/priority/priority.go", "\terr := safeDivide(\n\t\tdsc.opts.Divider,\n\t\tdsc.uncrowded,\n\t\tvacants,", "\terr := safeDivide(\n\t\tdsc.opts.Divider,\n\t\tdsc.priorities,\n\t\tvacants,", []),  # only reachable when some priority is over its share: none of the given properties speaks about that state
 ("prio2-wait-all-priorities", "v2/priority/priority.go", "\treturn dsc.isTacticFilled(dsc.uncrowded), nil", "\treturn dsc.isTacticFilled(dsc.priorities), nil", []),  # delays a round until a release arrives; progress as stated in C06 still holds
 ("prio2-second-phase-skipped", "v2/priority/priority.go", "\tif !proceed {\n\t\treturn processed, nil\n\t}\n\n\tprocessed += dsc.prioritize()\n\n\treturn processed, nil", "\t_ = proceed\n\n\treturn processed, nil", ["C06"]),
 ("prio2-return-on-idle", "v2/priority/priority.go", "\t\t\tif dsc.isDrainedInputs() {\n\t\t\t\treturn nil\n\t\t\t}", "\t\t\tif dsc.isDrainedInputs() || len(dsc.inputs) > 2 {\n\t\t\t\treturn nil\n\t\t\t}", ["C07"]),
 ("prio2-no-wait-zero-actual", "v2/priority/priority.go", "\tdefer dsc.waitZeroActual()\n", "", ["C07", "C15"]),
 ("prio2-drained-any", "v2/priority/priority.go", "func (dsc *Discipline[Type]) isDrainedInputs() bool {\n\tfor _, input := range dsc.inputs {\n\t\tif !input.Drained {\n\t\t\treturn false\n\t\t}\n\t}\n\n\treturn true", "func (dsc *Discipline[Type]) isDrainedInputs() bool {\n\tfor _, input := range dsc.inputs {\n\t\tif input.Drained {\n\t\t\treturn true\n\t\t}\n\t}\n\n\treturn false", ["C07", "C02"]),
 ("prio2-ignore-divider-error-in-recalc", "v2/priority/priority.go", "\tif err != nil {\n\t\treturn false, err\n\t}\n\n\tdsc.updateUsefulLikeUncrowded()", "\tdsc.updateUsefulLikeUncrowded()", ["C15"]),
 ("prio2-safedivide-only-over", "v2/priority/assist.go", "\tif after-before != dividend {", "\tif after-before > dividend {", ["C15"]),
 ("prio2-new-accepts-zero-share", "v2/priority/priority.go", "\tif len(strategic) != len(priorities) || !common.IsDistributionFilled(strategic) {\n\t\treturn nil, nil, nil, ErrHandlersQuantityTooSmall\n\t}\n", "", ["C15"]),
 # ---- priority v1
 ("prio1-stop-spin-reverted", "priority/priority.go", "\t\tif interrupted := dsc.getOneFeedback(); interrupted {\n\t\t\treturn true, nil\n\t\t}", "\t\tdsc.getOneFeedback()", ["C16"]),
 ("simple1-graceful-blocks-stop-reverted", "priority/simple.go", "\t\tsmpl.gracefulStop()\n", "\t\tsmpl.priority.GracefulStop()\n", ["C16"]),
 ("prio1-remove-forgets-inflight", "priority/priority.go", "\tdelete(dsc.inputs, priority)\n\tdelete(dsc.tactic, priority)\n", "\tdelete(dsc.inputs, priority)\n\tdelete(dsc.tactic, priority)\n\tdelete(dsc.actual, priority)\n", ["C01", "C17"]),
 ("prio1-remove-keeps-reading", "priority/priority.go", "\tdsc.priorities = removePriority(dsc.priorities, priority)\n\tdsc.strategic = dsc.opts.Divider(dsc.priorities, dsc.opts.HandlersQuantity, nil)\n}", "\tdsc.priorities = removePriority(dsc.priorities, priority)\n\tdsc.strategic = dsc.opts.Divider(dsc.priorities, dsc.opts.HandlersQuantity, nil)\n}", []),
 ("prio1-remove-drains-buffer-first", "priority/priority.go", "func (dsc *Discipline[Type]) removeInput(priority uint) {\n", "func (dsc *Discipline[Type]) removeInput(priority uint) {\n\tif len(dsc.inputs[priority].Channel) != 0 {\n\t\treturn\n\t}\n", ["C17"]),
 ("prio1-add-keeps-drained-flag", "priority/priority.go", "\t_, exists := dsc.inputs[priority]\n\n\tinput := common.Input[Type]{\n\t\tChannel: channel,\n\t}", "\told, exists := dsc.inputs[priority]\n\n\tinput := common.Input[Type]{\n\t\tChannel: channel,\n\t\tDrained: old.Drained,\n\t}", ["C17"]),
 ("prio1-send-after-stop", "priority/priority.go", "\tselect {\n\tcase <-dsc.breaker.IsBreaked():\n\t\treturn 0\n\tcase <-dsc.opts.Ctx.Done():\n\t\treturn 0\n\tcase dsc.opts.Output <- prioritized:", "\tselect {\n\tcase <-dsc.opts.Ctx.Done():\n\t\treturn 0\n\tcase dsc.opts.Output <- prioritized:", ["C16"]),
 ("prio1-graceful-ignores-actual", "priority/priority.go", "func (dsc *Discipline[Type]) waitZeroActual() {\n\tfor !dsc.isZeroActual() {", "func (dsc *Discipline[Type]) waitZeroActual() {\n\tfor !dsc.isZeroActual() && len(dsc.actual) > 1 {", ["C07"]),
 ("simple1-handlers-not-awaited", "priority/simple.go", "\tdefer smpl.wg.Wait()\n", "", ["C16", "C19"]),
 ("simple2-release-before-handle", "v2/priority/simple/simple.go", "\t\tdsc.opts.Handle(prioritized.Item)\n\t\tdsc.priority.Release(prioritized.Priority)", "\t\tdsc.priority.Release(prioritized.Priority)\n\t\tdsc.opts.Handle(prioritized.Item)", ["C07"]),
 ("limit-leaks-helper-goroutine", "v2/limit/limit.go", "\tgo dsc.main()\n", "\tgo dsc.main()\n\tgo func() {\n\t\t<-make(chan struct{})\n\t}()\n", ["C19"]),
 # ---- data races (race build of the simulator)
 ("race-join2-no-clone", "v2/join/join.go", "\treturn slices.Clone(item)", "\tif len(item) == 1 {\n\t\treturn item\n\t}\n\treturn slices.Clone(item)", ["C20"]),
 ("race-prio2-release-touches-actual", "v2/priority/priority.go", "func (dsc *Discipline[Type]) Release(priority uint) {\n\tdsc.feedback <- priority", "func (dsc *Discipline[Type]) Release(priority uint) {\n\tif dsc.actual[priority] == 0 {\n\t\treturn\n\t}\n\tdsc.feedback <- priority", ["C20"]),
 ("race-simple1-shared-counter", "priority/simple.go", "\t\t\tsmpl.opts.Handle(ctx, prioritized.Item)\n", "\t\t\tsmpl.opts.Handle(ctx, prioritized.Item)\n\t\t\tsmpl.opts.HandlersQuantity++\n\t\t\tsmpl.opts.HandlersQuantity--\n", ["C20"]),
 ("race-join1-unreleased-flag-read-in-stop", "join/join.go", "func (dsc *Discipline[Type]) Stop() {\n\tdsc.breaker.Break()", "func (dsc *Discipline[Type]) Stop() {\n\tif dsc.unreleased {\n\t\treturn\n\t}\n\tdsc.breaker.Break()", ["C20"]),
 ("race-limit-output-len-stat", "v2/limit/limit.go", "type Discipline[Type any] struct {\n\topts Opts[Type]\n", "type Discipline[Type any] struct {\n\topts Opts[Type]\n\tsent int\n", []),
 ("simple2-handle-twice-when-backlogged", "v2/priority/simple/simple.go", "\t\tdsc.opts.Handle(prioritized.Item)\n", "\t\tif len(dsc.priority.Output()) > 0 {\n\t\t\tdsc.opts.Handle(prioritized.Item)\n\t\t}\n\t\tdsc.opts.Handle(prioritized.Item)\n", ["C02"]),
 ("prio2-new-counts-only-found-entries-reverted", "v2/priority/priority.go", "\tif len(strategic) != len(priorities) || !common.IsDistributionFilled(strategic) {", "\tif !common.IsDistributionFilled(strategic) {", ["C15"]),
]

def main():
    want = sys.argv[1:]
    results = []
    for name, path, old, new, props in M:
        if want and not any(w in name for w in want):
            continue
        tmp = tempfile.mkdtemp(prefix="cqos-mut-")
        try:
            repo = os.path.join(tmp, "repo")
            shutil.copytree("/repo", repo, ignore=shutil.ignore_patterns(".git"))
            fp = os.path.join(repo, path)
            src = open(fp).read()
            if src.count(old) != 1:
                print(f"{name}: pattern occurs {src.count(old)} times in {path}", flush=True)
                results.append((name, "BAD-PATTERN"))
                continue
            open(fp, "w").write(src.replace(old, new))
            for prop in props:
                env = dict(os.environ, VERIF_REPO=repo)
                t = time.time()
                p = subprocess.run([os.path.join(VERIF, "bin/check"), prop, "--no-evidence", "--tier", "quick"], env=env, capture_output=True, text=True)
                line = [l for l in p.stdout.splitlines() if l.startswith("violated rule")]
                print(f"{name:45s} {prop} exit={p.returncode} {time.time()-t:5.1f}s {line[0] if line else ''}", flush=True)
                if p.returncode == 2:
                    print(p.stderr[-1500:])
                results.append((name, prop, p.returncode))
        finally:
            shutil.rmtree(tmp, ignore_errors=True)
    missed = [r for r in results if r[-1] != 1]
    print(f"{len(results)} mutant/property pairs, {len(missed)} not detected: {missed}")

if __name__ == "__main__":
    main()
