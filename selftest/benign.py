#!/usr/bin/env python3
"""False-alarm self-test: behaviour-preserving changes must not be reported.

usage: benign.py [<id> ...] [--props C01,C02] [--skip-suite]

Every directory benign/<id>/ holds patch.diff (a refactoring / retuning of the library that
keeps every listed property) and meta.json {"change": ..., "props": [...]} naming the checks
that exercise the touched code. For each change (scratch worktree only, never /repo):
  1. apply the patch, both modules build, the existing suite of the touched module(s) passes;
  2. bin/check <prop> (quick) for each listed property must exit 0 without a VIOLATION line.
Exit 1 if any check raised an alarm, 2 if a change could not be built or checked.
Results are written back into benign/<id>/meta.json.
"""
import json, os, shutil, subprocess, sys, tempfile, time

VERIF = os.path.dirname(os.path.dirname(os.path.abspath(__file__)))
ENV = dict(os.environ, GOFLAGS="-mod=mod", GOPROXY="off", GOSUMDB="off")


def sh(cmd, cwd, env=ENV, timeout=3000):
    p = subprocess.run(cmd, shell=True, cwd=cwd, env=env, capture_output=True, text=True, timeout=timeout)
    return p.returncode, (p.stdout + p.stderr)


def one(bid, only_props, skip_suite):
    bdir = os.path.join(VERIF, "benign", bid)
    meta_path = os.path.join(bdir, "meta.json")
    meta = json.load(open(meta_path))
    props = only_props or meta["props"]
    wt = tempfile.mkdtemp(prefix="cqos-benign-")
    os.rmdir(wt)
    bad = 0
    try:
        rc, out = sh(f"git -C /repo worktree add -q --detach {wt} HEAD", "/")
        assert rc == 0, out
        rc, out = sh(f"git apply {bdir}/patch.diff", wt)
        if rc != 0:
            print(f"[{bid}] patch does not apply: {out}")
            return 2
        rcb1, o1 = sh("go build ./...", wt)
        rcb2, o2 = sh("go build ./...", os.path.join(wt, "v2"))
        if rcb1 or rcb2:
            print(f"[{bid}] does not build: {o1}{o2}")
            return 2
        if not skip_suite:
            rc, out = sh("git diff --name-only", wt)
            mods = sorted({"v2" if f.startswith("v2/") else "." for f in out.split()})
            ok = True
            for m in mods:
                t = time.time()
                rcs, outs = sh("go test -vet=off -count=1 -timeout 25m ./...", os.path.join(wt, m))
                if rcs != 0:  # timing flakes of the suite under load: one retry of the failing packages
                    failing = [l.split()[1] for l in outs.splitlines() if l.startswith("FAIL\t")]
                    if failing:
                        rcs, outs = sh("go test -vet=off -count=1 -timeout 25m " + " ".join(failing), os.path.join(wt, m))
                print(f"[{bid}] existing suite of module '{m}' with the change: exit {rcs} ({time.time()-t:.0f}s)")
                if rcs != 0:
                    print(outs[-1500:])
                    ok = False
            meta["existing_suite_passes_with_change"] = ok
        results = meta.get("checks", {})
        for prop in props:
            t = time.time()
            p = subprocess.run([os.path.join(VERIF, "bin/check"), prop, "--no-evidence", "--tier", "quick"],
                               env=dict(os.environ, VERIF_REPO=wt), capture_output=True, text=True)
            rule = [l for l in p.stdout.splitlines() if l.startswith("violated rule")]
            det = [l for l in p.stdout.splitlines() if l.startswith("  {")]
            print(f"[{bid}] bin/check {prop}: exit {p.returncode} {time.time()-t:.0f}s {rule[0] if rule else ''}")
            if p.returncode == 2:
                print(p.stderr[-1500:])
                bad = max(bad, 2)
            elif p.returncode != 0:
                print(p.stdout[-1500:])
                bad = max(bad, 1)
            results[prop] = {"exit": p.returncode, "rule": rule[0][len("violated rule: "):] if rule else None,
                             "detail": det[0].strip()[:600] if det else None, "wall_s": round(time.time() - t, 1)}
        meta["checks"] = results
        json.dump(meta, open(meta_path, "w"), indent=1)
    finally:
        sh(f"git -C /repo worktree remove --force {wt}", "/")
        shutil.rmtree(wt, ignore_errors=True)
    return bad


def main():
    args = [a for a in sys.argv[1:] if not a.startswith("--")]
    only = None
    if "--props" in sys.argv:
        only = sys.argv[sys.argv.index("--props") + 1].split(",")
        args = [a for a in args if a != ",".join(only)]
    ids = args or sorted(d for d in os.listdir(os.path.join(VERIF, "benign")) if os.path.exists(os.path.join(VERIF, "benign", d, "patch.diff")))
    worst = 0
    for bid in ids:
        worst = max(worst, one(bid, only, "--skip-suite" in sys.argv))
    print(f"{len(ids)} behaviour-preserving change(s): " + ("no alarm" if worst == 0 else f"worst exit {worst}"))
    sys.exit(worst)


if __name__ == "__main__":
    main()
