#!/usr/bin/env python3
"""Confirms an independently seeded change and runs the checks against it.

usage: seeded.py <seed-id> <demo-dir-relative-to-module-root> <module: . or v2> <props,...> [--skip-confirm]

Steps (all in scratch copies, never in /repo):
  1. fresh worktree of /repo HEAD; demo must PASS on it;
  2. apply patch.diff; both modules build; the existing suite of the touched module passes
     (demo excluded); demo must FAIL;
  3. bin/check <prop> (quick) for every listed property with VERIF_REPO pointing at the patched copy.
Writes seeded/<id>/meta.json.
"""
import json, os, shutil, subprocess, sys, tempfile, time

VERIF = os.path.dirname(os.path.dirname(os.path.abspath(__file__)))
ENV = dict(os.environ, GOFLAGS="-mod=mod", GOPROXY="off", GOSUMDB="off")

def sh(cmd, cwd, env=ENV, timeout=3000):
    p = subprocess.run(cmd, shell=True, cwd=cwd, env=env, capture_output=True, text=True, timeout=timeout)
    return p.returncode, (p.stdout + p.stderr)

def main():
    sid, demodir, module, props = sys.argv[1], sys.argv[2], sys.argv[3], sys.argv[4].split(",")
    skip = "--skip-confirm" in sys.argv
    sdir = os.path.join(VERIF, "seeded", sid)
    demo = [f for f in os.listdir(sdir) if f.endswith("_test.go.txt")][0]
    meta_path = os.path.join(sdir, "meta.json")
    meta = json.load(open(meta_path)) if os.path.exists(meta_path) else {}
    wt = tempfile.mkdtemp(prefix="cqos-seeded-")
    os.rmdir(wt)
    try:
        rc, out = sh(f"git -C /repo worktree add -q --detach {wt} HEAD", "/")
        assert rc == 0, out
        modroot = os.path.join(wt, module)
        demodst = os.path.join(modroot, demodir, demo[:-4])
        shutil.copy(os.path.join(sdir, demo), demodst)
        run_demo = f"go test {os.environ.get('SEEDED_DEMO_FLAGS', '')} -vet=off -count=1 -run TestSeeded ./{demodir}/"
        confirm = meta.get("confirmed", {})
        if not skip:
            rc0, out0 = sh(run_demo, modroot)
            print(f"[{sid}] demo on unchanged tree: exit {rc0}")
            rc, out = sh(f"git apply {sdir}/patch.diff", wt)
            assert rc == 0, out
            rcb1, _ = sh("go build ./...", wt)
            rcb2, _ = sh("go build ./...", os.path.join(wt, "v2"))
            t = time.time()
            rcs, outs = sh("go test -vet=off -count=1 -timeout 25m -skip TestSeeded ./...", modroot)
            print(f"[{sid}] existing suite of module '{module}' with the change: exit {rcs} ({time.time()-t:.0f}s)")
            if rcs != 0:
                print(outs[-2000:])
            rc1, out1 = sh(run_demo, modroot)
            print(f"[{sid}] demo with the change: exit {rc1}")
            confirm = {
                "demo_passes_without_change": rc0 == 0,
                "builds_with_change": rcb1 == 0 and rcb2 == 0,
                "existing_suite_passes_with_change": rcs == 0,
                "demo_fails_with_change": rc1 != 0,
                "demo_cmd": f"(module {module}) {run_demo}",
                "suite_cmd": "go test -vet=off -count=1 -timeout 25m -skip TestSeeded ./...",
            }
        else:
            rc, out = sh(f"git apply {sdir}/patch.diff", wt)
            assert rc == 0, out
        os.remove(demodst)
        results = meta.get("checks", {})
        for prop in props:
            if not prop:
                continue
            t = time.time()
            tier = os.environ.get("SEEDED_TIER", "quick")  # thorough: for changes only that tier reaches
            extra = ["--wall", "120"] if tier == "thorough" else []
            p = subprocess.run([os.path.join(VERIF, "bin/check"), prop, "--no-evidence", "--tier", tier] + extra,
                               env=dict(os.environ, VERIF_REPO=wt), capture_output=True, text=True)
            rule = [l for l in p.stdout.splitlines() if l.startswith("violated rule")]
            det = [l for l in p.stdout.splitlines() if l.startswith("  {")]
            print(f"[{sid}] bin/check {prop}: exit {p.returncode} {time.time()-t:.0f}s {rule[0] if rule else ''}")
            if p.returncode == 2:
                print(p.stderr[-1500:])
            results[prop] = {"exit": p.returncode, "rule": rule[0][len("violated rule: "):] if rule else None,
                             "detail": det[0].strip()[:600] if det else None, "wall_s": round(time.time()-t, 1)}
        meta.update({"confirmed": confirm, "checks": results})
        json.dump(meta, open(meta_path, "w"), indent=1)
    finally:
        sh(f"git -C /repo worktree remove --force {wt}", "/")
        shutil.rmtree(wt, ignore_errors=True)

if __name__ == "__main__":
    main()
