#!/bin/bash
# Re-runs the quick check of the targeted property against every kept seeded change
# (scratch worktrees only). usage: seeded_all.sh
cd "$(dirname "$0")/.."
declare -A DIR=( [C01]="priority ." [C02]="priority ." [C03]="join v2" [C04]="limit v2" [C05]="priority v2" [C06]="priority v2" [C07]="priority ." [C08]="join ." [C09]="join v2" [C10]="join v2" [C11]="join/unite v2" [C12]="limit v2" [C15]="priority v2" [C16]="priority ." [C17]="priority ." [C19]="priority ." [C20]="join ." [C01b]="priority v2" [C02b]="priority v2" [C03b]="join/unite v2" [C07b]="priority v2" [C08b]="join/unite v2" [C10b]="join/unite v2" [C16b]="join ." [C17b]="priority ." [C04c]="limit v2" [C05c]="priority ." [C06c]="priority v2" [C09c]="join/unite v2" [C11c]="join/unite v2" [C12c]="limit v2" [C15c]="priority ." [C19c]="priority v2" [C20c]="priority ." [C01d]="priority ." [C02d]="priority ." [C03d]="join ." [C07d]="priority ." [C08d]="join v2" [C09d]="join ." [C10d]="join v2" [C16d]="join ." [C17d]="priority ." [C19d]="join ." [C01c]="priority v2" [C04e]="limit v2" [C05e]="priority v2" [C06e]="priority ." [C11e]="join/unite v2" [C12e]="limit v2" [C15e]="priority v2" [C19e]="priority ." [C20e]="join v2" [C02e]="priority ." [C07e]="priority v2" [C16f]="priority ." [C17f]="priority ." [C19f]="join v2" [C20f]="priority v2" [C10f]="join ." [C03f]="join v2" [C05f]="priority ." [C01f]="priority ." [C12g]="limit v2" [C03g]="join/unite v2" [C07g]="priority ." [C06g]="priority ." [C16g]="priority ." [C02g]="priority v2" [C19g]="priority ." [C08g]="join/unite v2" [C01g]="priority v2" [C04h]="limit v2" [C09h]="join/unite v2" [C20h]="join ." [C12h]="limit v2" [C15h]="priority ." [C11h]="join/unite v2" [C10h]="join/unite v2" [C17h]="priority ." [C02i]="priority ." [C03i]="join/unite v2" [C07i]="priority v2" [C08i]="join ." [C12i]="limit v2" [C16i]="priority ." [C17i]="priority ." [C19i]="priority ." [C01j]="priority ." [C02j]="priority ." [C07j]="priority ." [C08j]="join v2" [C09j]="join ." [C10j]="join v2" [C16j]="join ." [C17j]="priority ." [C19j]="priority ." [C20j]="join ." [C01k]="priority/simple v2" [C02k]="priority/simple v2" [C07k]="priority/simple v2" [C19k]="priority/simple v2" [C20k]="priority ." [C15k]="priority v2" [C10k]="join v2" [C05k]="priority v2" [C17k]="priority ." [C09k]="join v2" [C01m]="priority ." [C04m]="limit v2" [C05m]="priority ." [C06m]="priority ." [C09m]="join/unite v2" [C10m]="join v2" [C11m]="join/unite v2" [C15m]="priority v2" [C01n]="priority ." [C02n]="priority v2" [C07n]="priority ." [C16n]="priority ." [C17n]="priority ." [C19n]="priority ." [C20n]="priority ." [C08n]="join/unite v2" [C01p]="priority ." [C03p]="join/unite v2" [C05p]="priority v2" [C09p]="join v2" [C10p]="join v2" [C12p]="limit v2" [C15p]="priority v2" [C02q]="priority ." [C09q]="join/unite v2" [C10q]="join v2" [C12q]="limit v2" [C16q]="priority ." [C02w]="priority v2" [C03w]="join v2" [C07w]="priority ." [C08w]="join v2" [C09w]="join v2" [C11w]="join/unite v2" [C12w]="limit v2" [C15w]="priority v2" [C17w]="priority ." )
declare -A PROP=( [C19d]="C16" [C03i]="C08" [C09w]="C03" )
# reached by the thorough tier only (long histories, many inputs)
declare -A TIER=( [C02w]="thorough" [C03w]="thorough" )
fail=0
for id in $(ls seeded | sort); do
  [ -f seeded/$id/patch.diff ] || continue
  [ "$id" = "C05g" ] && continue
  [ "$id" = "C04p" ] && continue
  [ "$id" = "C06q" ] && continue
  [ "$id" = "C04w" ] && continue   # needs asynchronous timer channels (DESIGN 9.3)
  [ "$id" = "C16w" ] && continue   # capped delay after seconds of idleness (DESIGN 9.3)
  set -- ${DIR[$id]:-}; [ -z "${1:-}" ] && { echo "$id: no entry"; continue; }
  prop=${PROP[$id]:-$(jq -r .breaks_property seeded/$id/meta.json)}
  out=$(SEEDED_TIER=${TIER[$id]:-quick} python3 selftest/seeded.py $id $1 $2 $prop --skip-confirm 2>&1 | grep "bin/check")
  echo "$out"
  echo "$out" | grep -q "exit 1" || fail=1
done
exit $fail
