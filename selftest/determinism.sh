#!/bin/bash
# Determinism self-test: the same (VERIF_SEED, property, run index) must give the same
# event log (hash over every operation: sequence numbers, simulated times, tasks, sites,
# values, select outcomes) whatever the process, the worker count and GOMAXPROCS.
# usage: determinism.sh [runs-per-config (default 600)] [property ...]
set -u
VERIF="$(cd "$(dirname "${BASH_SOURCE[0]}")/.." && pwd)"
RUNS="${1:-600}"; shift || true
PROPS=("$@"); [ ${#PROPS[@]} -eq 0 ] && PROPS=(C01 C03 C04 C07 C10 C15 C16 C17 C19 C20)
T="$(mktemp -d -t cqos-det-XXXXXX)"; trap 'rm -rf "$T"' EXIT
fail=0
for p in "${PROPS[@]}"; do
  n=0
  for cfg in "16 16" "16 4" "16 1" "5 16" "3 4" "1 1" "16 16" "7 2" "2 16" "11 1"; do
    set -- $cfg; w=$1; gmp=$2; n=$((n+1))
    GOMAXPROCS=$gmp "$VERIF/bin/check" "$p" --no-evidence --runs "$RUNS" --workers "$w" --digest-out "$T/$p.$n" >/dev/null 2>"$T/err.$p.$n"
    rc=$?
    [ $rc -ne 0 ] && { echo "$p config($cfg): exit $rc"; cat "$T/err.$p.$n" | tail -5; fail=1; }
    cat "$T/$p.$n".w* | sort -n > "$T/$p.$n.all"
  done
  ref="$T/$p.1.all"
  lines=$(wc -l < "$ref")
  distinct=$(for f in "$T/$p".*.all; do md5sum < "$f"; done | sort -u | wc -l)
  if [ "$distinct" -ne 1 ]; then
    echo "NON-DETERMINISTIC: $p ($distinct distinct logs over 10 process configurations)"; fail=1
    for f in "$T/$p".*.all; do diff "$ref" "$f" | head -3; done
  else
    echo "$p: $lines runs x 10 configurations (workers 1..16, GOMAXPROCS 1/2/4/16; $((10*16)) processes at most): identical event-log hashes"
  fi
done
exit $fail
