#!/usr/bin/env python3
"""Regenerates /verif/MANIFEST.json from the table below (kept valid at all times)."""
import json, os, sys

VERIF = os.path.dirname(os.path.dirname(os.path.abspath(__file__)))

BASELINE_OFF = ("for m in . ./v2; do (cd /repo/$m && GOFLAGS=-mod=mod go test -json -vet=off -count=1 -timeout 25m ./...); done")

TECH = "deterministic simulation: seeded baton scheduler + seeded select arbitration over the instrumented library in a testing/synctest bubble (fake clock), scripted environment actors with fault injection, history oracle, shrinking, exact replay"

NOTE = ("Trusted base: simgen's local source rewrite of synchronisation points, simrt, Go 1.26.8 runtime and testing/synctest, the oracle. "
        "Sampling of schedules/scenarios/fault positions, not proof; bounds recorded in evidence.")

# id -> (engine names, design section, claim text)
CLAIMED = {
}

PENDING = {}

NA = {
 "C13": "Rate.Recalculate/Optimize/Flatten are pure functions of three integers: no schedule, clock, fault or interleaving exists for a simulator to vary (DESIGN.md §4).",
 "C14": "Fair/Rate dividers are pure functions of (list, dividend, map); nothing to simulate. The simulator only uses them as configuration and as the C05 reference (DESIGN.md §4).",
 "C18": "The handler-quantity helpers are pure functions; acceptance by the v2 constructor is decided in prepare() before any goroutine exists (DESIGN.md §4).",
}

def load_table():
    path = os.path.join(VERIF, "tools", "claims.json")
    with open(path) as f:
        return json.load(f)

def main():
    table = load_table()
    checks = []
    for pid in sorted(table["claimed"]):
        c = table["claimed"][pid]
        checks.append({
            "property_id": pid,
            "quick_cmd": f"bin/check {pid} --tier quick",
            "thorough_cmd": f"bin/check {pid} --tier thorough",
            "evidence_file": f"evidence/{pid}.json",
            "replay_cmd_template": f"bin/check {pid} --replay {{path}}",
            "engine": "cqos-dsim",
            "level_claimed": {"category": "exploration", "text": c["text"], "design_ref": c.get("design_ref", "DESIGN.md §4")},
            "level_note": NOTE + (" " + c["note"] if c.get("note") else ""),
            "technique": TECH if not c.get("technique") else c["technique"],
        })
    na = [{"property_id": k, "reason": v} for k, v in sorted(NA.items())]
    for k, v in sorted(table.get("pending", {}).items()):
        na.append({"property_id": k, "reason": v})
    manifest = {
        "version": 1,
        "setup_cmd": "bin/setup && bin/warm",
        "hooks": {
            "guard": "verifsim",
            "enable": "no in-repo hook exists: bin/check instruments a scratch copy of /repo's working tree with simgen (source-to-source rewrite of synchronisation points into verif/simrt calls) and builds it with go1.26.8; /repo itself is never modified",
            "baseline_off_cmd": BASELINE_OFF,
            "source_commits": table.get("hook_commits", []),
            "add_only": True,
        },
        "engines": [{
            "name": "cqos-dsim",
            "path": "simgen/ simrt/ harness/ cmd/driver/ bin/check",
            "serves_properties": sorted(table["claimed"]),
            "kind_free_text": "deterministic simulator (seeded scheduler + select arbitration + fake clock) with fault-injecting environment actors, history oracles, shrinker and replayer",
        }],
        "checks": checks,
        "not_applicable": na,
        "notes": table.get("notes", ""),
    }
    with open(os.path.join(VERIF, "MANIFEST.json"), "w") as f:
        json.dump(manifest, f, indent=1)
        f.write("\n")

if __name__ == "__main__":
    main()
