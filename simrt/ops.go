package simrt

import (
	"fmt"
	"reflect"
	"strings"
	"sync"
	"time"
	"unsafe"
)

// Kind of a history record.
type Kind uint8

const (
	KSend Kind = iota + 1
	KRecv
	KClose
	KSpawn
	KExit
	KNote
	KPanic
	KSelDefault
)

func (k Kind) String() string {
	switch k {
	case KSend:
		return "send"
	case KRecv:
		return "recv"
	case KClose:
		return "close"
	case KSpawn:
		return "spawn"
	case KExit:
		return "exit"
	case KNote:
		return "note"
	case KPanic:
		return "panic"
	case KSelDefault:
		return "default"
	}

	return "?"
}

// Rec is one completed visible operation. The baton serialises execution, so the
// history is a total order.
type Rec struct {
	Seq      int64
	Step     int64
	T        int64 // simulated ns since the start of the run
	Task     int
	TaskName string
	Lib      bool // performed by a goroutine started from library code
	Kind     Kind
	Site     string
	Ch       int    // per-run ordinal of the channel (0 = none)
	ChName   string // logical name if the environment registered one
	Ok       bool   // recv: false = channel closed
	Val      int64
	Aux      int64
	Slice    []int   // copy of the contents for slice-typed values
	Ptr      uintptr // address of the first element of a slice value
	Cap      int
	Note     string
}

// Describe turns a transferred value into (val, aux, slice). The harness installs a
// function that knows the item types it uses.
var Describe func(v any) (val, aux int64, sl []int, ok bool)

//go:norace
func describe(v any) (val, aux int64, sl []int, ptr uintptr, cp int) {
	switch x := v.(type) {
	case int:
		return int64(x), 0, nil, 0, 0
	case uint:
		return int64(x), 0, nil, 0, 0
	case []int:
		c := make([]int, len(x))
		for i := range x {
			c[i] = x[i]
		}

		if cap(x) > 0 {
			ptr = uintptr(unsafe.Pointer(unsafe.SliceData(x)))
		}

		return int64(len(x)), 0, c, ptr, cap(x)
	case struct{}:
		return 0, 0, nil, 0, 0
	case time.Time:
		return 0, 0, nil, 0, 0
	case error:
		if x == nil {
			return 0, 0, nil, 0, 0
		}

		return 1, 0, nil, 0, 0
	}

	if Describe != nil {
		if val, aux, sl, ok := Describe(v); ok {
			return val, aux, sl, 0, 0
		}
	}

	return 0, 0, nil, 0, 0
}

// chanOrd maps a channel to its per-run ordinal (addresses differ between processes
// and never enter the event-log hash). The table keeps a reference to every channel it
// has seen: otherwise the collector could free one and hand its address to a new
// channel, which would then be mistaken for the old one - at a moment that depends on
// the process, not on the seed.
//
//go:norace
func (s *Sim) chanOrd(p unsafe.Pointer) int {
	if p == nil {
		return 0
	}

	if len(s.chanTab) == 0 {
		s.chanTab = make([]int32, 256)
	}

	mask := uintptr(len(s.chanTab) - 1)
	i := (uintptr(p) >> 4 * 0x9e3779b97f4a7c15 >> 20) & mask

	for {
		o := s.chanTab[i]
		if o == 0 {
			break
		}

		if s.chans[o-1].ref == p {
			return int(o)
		}

		i = (i + 1) & mask
	}

	s.chans = push(s.chans, chanInfo{ref: p})
	o := len(s.chans)
	s.chanTab[i] = int32(o)

	if 2*o > len(s.chanTab) {
		old := s.chans
		s.chanTab = make([]int32, 2*len(s.chanTab))
		mask = uintptr(len(s.chanTab) - 1)

		for k := range old {
			j := (uintptr(old[k].ref) >> 4 * 0x9e3779b97f4a7c15 >> 20) & mask
			for s.chanTab[j] != 0 {
				j = (j + 1) & mask
			}

			s.chanTab[j] = int32(k + 1)
		}
	}

	return o
}

//go:norace
func (s *Sim) closedSeen(task, ch int) bool {
	key := uint64(task)<<32 | uint64(ch)

	for _, k := range s.closedRecvs {
		if k == key {
			return true
		}
	}

	s.closedRecvs = push(s.closedRecvs, key)

	return false
}

//go:norace
func (s *Sim) nameChan(p unsafe.Pointer, name string) {
	o := s.chanOrd(p)
	if o > 0 {
		s.chans[o-1].name = name
	}
}

//go:norace
func (s *Sim) record(r Rec, t *task) {
	s.seq++
	r.Seq = s.seq
	r.Step = s.step
	r.T = s.now()
	r.Task = t.id
	r.TaskName = t.name
	r.Lib = t.lib

	s.hist = push(s.hist, r)

	// progress = a completed transfer, a close, a task starting or ending; learning
	// again that a channel is closed, or an environment note, is not
	if (r.Kind == KRecv && r.Ok) || r.Kind == KSend || r.Kind == KClose || r.Kind == KSpawn || r.Kind == KExit {
		s.progressStep = s.step
	}

	s.mix(uint64(r.Kind), hashString(r.Site)^uint64(r.Task)<<40^uint64(r.Ch)<<20)
	s.mix(uint64(r.T), uint64(r.Val)^uint64(r.Aux)<<32)

	for _, x := range r.Slice {
		s.mix(0x77, uint64(x))
	}

	if r.Note != "" {
		s.mix(0x78, hashString(r.Note))
	}

	// interleaving signature: who did what where, without values and times
	s.mixSig(hashString(r.Site) ^ hashString(r.TaskName)<<1 ^ uint64(r.Kind)<<56 ^ uint64(r.Ch)<<48)

}

func (r Rec) String() string {
	ok := ""
	if r.Kind == KRecv && !r.Ok {
		ok = " CLOSED"
	}

	sl := ""
	if r.Slice != nil {
		sl = fmt.Sprintf(" %v", r.Slice)
	}

	return fmt.Sprintf("#%d step=%d t=%d task=%d(%s) %s %s ch=%d(%s) val=%d aux=%d%s%s %s",
		r.Seq, r.Step, r.T, r.Task, r.TaskName, r.Kind, r.Site, r.Ch, r.ChName, r.Val, r.Aux, sl, ok, r.Note)
}

//go:norace
func (s *Sim) recordOp(kind Kind, site string, chp unsafe.Pointer, v any, ok bool, t *task) {
	r := Rec{Kind: kind, Site: site, Ok: ok}

	if chp != nil {
		r.Ch = s.chanOrd(chp) // the logical name is filled in at the end of the run
	}

	if kind == KRecv && !ok && r.Ch > 0 {
		// a polling loop learns again and again that a channel is closed (a broken
		// breaker, a cancelled context): only the first time per task and channel is
		// history, the repetitions would be most of an idle run's log
		if s.closedSeen(t.id, r.Ch) {
			s.mix(0x62, uint64(r.Ch))
			return
		}
	}

	if v != nil {
		r.Val, r.Aux, r.Slice, r.Ptr, r.Cap = describe(v)
	}

	s.record(r, t)
}

// recordSent logs a completed send with the description of the value taken *before* the
// operation: a blocked send is logged when the sender next holds the baton, and by then
// the receiver may already have written into a slice it was handed.
//
//go:norace
func (s *Sim) recordSent(site string, chp unsafe.Pointer, d Rec, t *task) {
	d.Kind, d.Site, d.Ok = KSend, site, true
	d.Ch = s.chanOrd(chp)
	s.record(d, t)
}

//go:norace
func describeRec(v any) Rec {
	var r Rec
	r.Val, r.Aux, r.Slice, r.Ptr, r.Cap = describe(v)

	return r
}

func recvPtr[T any](c <-chan T) unsafe.Pointer { return *(*unsafe.Pointer)(unsafe.Pointer(&c)) }
func sendPtr[T any](c chan<- T) unsafe.Pointer { return *(*unsafe.Pointer)(unsafe.Pointer(&c)) }

const (
	opSend uint64 = iota + 0x10
	opRecv
	opClose
	opGo
	opSleep
	opWait
	opSelect
	opYield
	opLock
)

// Send is `c <- v`.
func Send[T any](site string, c chan<- T, v T) {
	s, t := enter(site, opSend)

	d := describeRec(any(v))

	select {
	case c <- v:
	default:
		s.blocked(t, site)
		c <- v
		s.resume(t)
	}

	s.recordSent(site, sendPtr(c), d, t)
}

// Recv is `<-c`.
func Recv[T any](site string, c <-chan T) T {
	v, _ := Recv2(site, c)
	return v
}

// Recv2 is `v, ok := <-c`.
func Recv2[T any](site string, c <-chan T) (T, bool) {
	s, t := enter(site, opRecv)

	var (
		v  T
		ok bool
	)

	select {
	case v, ok = <-c:
	default:
		s.blocked(t, site)
		v, ok = <-c
		s.resume(t)
	}

	s.recordOp(KRecv, site, recvPtr(c), any(v), ok, t)

	return v, ok
}

// Close is `close(c)`.
func Close[T any](site string, c chan<- T) {
	s, t := enter(site, opClose)

	close(c)

	s.recordOp(KClose, site, sendPtr(c), nil, true, t)
}

// Go is the go statement of library code.
//
//go:norace
func Go(site string, f func()) {
	s, t := enter(site, opGo)
	nt := spawn(s, site, strings.HasPrefix(site, "lib:"), f)
	s.record(Rec{Kind: KSpawn, Site: site, Val: int64(nt.id)}, t)
}

// GoEnv starts an environment actor.
//
//go:norace
func GoEnv(name string, f func()) {
	s, t := enter("env:go", opGo)
	nt := spawn(s, "env:"+name, false, f)
	s.record(Rec{Kind: KSpawn, Site: "env:go", Val: int64(nt.id), Note: name}, t)
}

// Sleep is time.Sleep on the simulated clock.
func Sleep(site string, d time.Duration) {
	s, t := enter(site, opSleep)

	if d <= 0 {
		return
	}

	s.blocked(t, site)
	time.Sleep(d)
	s.resume(t)
}

// TimeNow is time.Now() in library code: not an operation (no step, no preemption point),
// but a stall point - on real hardware time passes between any two statements.
//
//go:norace
func TimeNow(site string) time.Time {
	s := cur
	if t := s.running; t != nil && t.lib && !s.aborted {
		s.site(site).Hits++
		s.maybeStall(t, "sim:stall-at-clock")
	}

	return time.Now()
}

// TimeSince is time.Since(x) in library code (see TimeNow).
//
//go:norace
func TimeSince(site string, x time.Time) time.Duration {
	return TimeNow(site).Sub(x)
}

// WaitGroupWait is wg.Wait().
func WaitGroupWait(site string, wg *sync.WaitGroup) {
	s, t := enter(site, opWait)

	s.blocked(t, site)
	wg.Wait()
	s.resume(t)
}

// Yield is runtime.Gosched(): an unconditional return to the scheduler.
//
//go:norace
func Yield(site string) {
	s, t := enter(site, opYield)
	t.state = stReady
	eventPost(s, event{t, evReady})
	batonPark(t)
}

// Locker is what Lock needs (sync.Mutex and sync.RWMutex have TryLock).
type Locker interface{ TryLock() bool }

// Lock acquires mu without ever blocking in the Go runtime on a mutex (which is not a
// durable block inside a bubble).
func Lock(site string, mu Locker) {
	for {
		s, t := enter(site, opLock)

		if mu.TryLock() {
			return
		}

		forceYield(s, t)
	}
}

//go:norace
func forceYield(s *Sim, t *task) {
	t.state = stReady
	eventPost(s, event{t, evReady})
	batonPark(t)
}

// WaitStep parks the calling environment actor until the run has executed n steps.
//
//go:norace
func WaitStep(n int64) {
	s, t := enter("env:waitstep", opYield)

	if s.step >= n {
		return
	}

	t.waitStep = n
	if n < s.nextWaitStep {
		s.nextWaitStep = n
	}

	eventPost(s, event{t, evWaitStep})
	batonPark(t)

	if s.aborted {
		parkForever(t)
	}
}

// Note appends an environment-level semantic record. It is not a scheduling point.
//
//go:norace
func Note(note string, val, aux int64) {
	s := cur
	s.record(Rec{Kind: KNote, Site: "env", Note: note, Val: val, Aux: aux}, s.running)
}

// NoteSlice is Note with the current contents and location of a slice.
//
//go:norace
func NoteSlice(note string, val int64, sl []int) {
	s := cur
	r := Rec{Kind: KNote, Site: "env", Note: note, Val: val}
	_, _, r.Slice, r.Ptr, r.Cap = describe(sl)
	s.record(r, s.running)
}

// Now is the simulated time since the start of the run.
//
//go:norace
func Now() int64 { return cur.now() }

// Step is the number of operations executed so far.
//
//go:norace
func Step() int64 { return cur.step }

// EnvChoice draws an environment decision from the choice stream.
//
//go:norace
func EnvChoice(n int) int { return cur.ch.choose(chEnv, n) }

// NameRecv / NameSend give a channel a logical name in the history.
//
//go:norace
func NameRecv[T any](c <-chan T, name string) { cur.nameChan(recvPtr(c), name) }

//go:norace
func NameSend[T any](c chan<- T, name string) { cur.nameChan(sendPtr(c), name) }

// SetVar / GetVar / AddVar are small shared cells for environment actors: in the race
// build actors must not share plain variables (the baton that orders them is hidden
// from the detector).
//
//go:norace
func SetVar(i int, v int64) { cur.vars[i] = v }

//go:norace
func GetVar(i int) int64 { return cur.vars[i] }

//go:norace
func AddVar(i int, d int64) int64 { cur.vars[i] += d; return cur.vars[i] }

// ---------------------------------------------------------------------------------
// select

// Case is one communication clause of a select statement.
type Case interface {
	try(s *Sim, t *task, site string) bool
	rcase() reflect.SelectCase
	complete(s *Sim, t *task, site string, rv reflect.Value, ok bool)
	priv() any
	recvChan() unsafe.Pointer // nil for a send case
}

type recvCase[T any] struct {
	c <-chan T
	p chan T
}

type sendCase[T any] struct {
	c chan<- T
	v T
	p chan T

	d         Rec // description of v taken before the operation
	described bool
}

// RecvCase describes `case ... <-c:`.
func RecvCase[T any](c <-chan T) Case { return &recvCase[T]{c: c} }

// SendCase describes `case c <- v:`.
func SendCase[T any](c chan<- T, v T) Case { return &sendCase[T]{c: c, v: v} }

func (rc *recvCase[T]) try(s *Sim, t *task, site string) bool {
	select {
	case v, ok := <-rc.c:
		rc.park(v, ok)
		s.recordOp(KRecv, site, recvPtr(rc.c), any(v), ok, t)

		return true
	default:
		return false
	}
}

func (rc *recvCase[T]) park(v T, ok bool) {
	rc.p = make(chan T, 1)

	if ok {
		rc.p <- v
	} else {
		close(rc.p)
	}
}

func (rc *recvCase[T]) rcase() reflect.SelectCase {
	return reflect.SelectCase{Dir: reflect.SelectRecv, Chan: reflect.ValueOf(rc.c)}
}

func (rc *recvCase[T]) complete(s *Sim, t *task, site string, rv reflect.Value, ok bool) {
	var v T

	if ok {
		reflect.ValueOf(&v).Elem().Set(rv)
	}

	rc.park(v, ok)
	s.recordOp(KRecv, site, recvPtr(rc.c), any(v), ok, t)
}

func (rc *recvCase[T]) priv() any { return rc.p }

func (rc *recvCase[T]) recvChan() unsafe.Pointer { return recvPtr(rc.c) }

func (sc *sendCase[T]) try(s *Sim, t *task, site string) bool {
	if !sc.described {
		sc.d = describeRec(any(sc.v))
		sc.described = true
	}

	select {
	case sc.c <- sc.v:
		sc.p = make(chan T, 1)
		s.recordSent(site, sendPtr(sc.c), sc.d, t)

		return true
	default:
		return false
	}
}

func (sc *sendCase[T]) rcase() reflect.SelectCase {
	return reflect.SelectCase{Dir: reflect.SelectSend, Chan: reflect.ValueOf(sc.c), Send: reflect.ValueOf(&sc.v).Elem()}
}

func (sc *sendCase[T]) complete(s *Sim, t *task, site string, _ reflect.Value, _ bool) {
	sc.p = make(chan T, 1)
	s.recordSent(site, sendPtr(sc.c), sc.d, t)
}

func (sc *sendCase[T]) priv() any { return sc.p }

func (sc *sendCase[T]) recvChan() unsafe.Pointer { return nil }

// Sel is the outcome of a simulated select: which clause won (-1: default).
type Sel struct {
	cases []Case
	won   int
}

// Select arbitrates a select statement. It performs the winning communication itself
// and parks its result in a private channel; RecvPick/SendPick then give the original
// statement exactly one ready case, so its clause bodies run in place and unchanged.
func Select(site string, hasDefault bool, cases ...Case) *Sel {
	s, t := enter(site, opSelect)

	m := &Sel{cases: cases, won: -1}
	n := len(cases)

	if n > 0 {
		first := s.ch.choose(chSelect, n)

		for k := 0; k < n; k++ {
			i := (first + k) % n

			if cases[i].try(s, t, site) {
				m.won = i
				break
			}
		}
	}

	if m.won < 0 && !hasDefault {
		rcs := make([]reflect.SelectCase, n)
		for i, c := range cases {
			rcs[i] = c.rcase()
		}

		s.blocked(t, site)
		i, rv, ok := reflect.Select(rcs)
		s.resume(t)

		cases[i].complete(s, t, site, rv, ok)
		m.won = i
	}

	if m.won < 0 && s.cfg.RecordEmptyPolls && t.lib {
		for _, c := range cases {
			if p := c.recvChan(); p != nil {
				s.recordOp(KSelDefault, site, p, nil, true, t)
			}
		}
	}

	s.selTaken(site, m.won, t)

	return m
}

//go:norace
func (s *Sim) selTaken(site string, won int, t *task) {
	if won+1 <= maxCases {
		s.site(site).Cases[won+1]++
	}

	s.mix(0x60, uint64(won+1))

	if won < 0 {
		s.mixSig(hashString(site) ^ 0xdefa)
	}
}

// RecvPick returns the channel the rewritten `case ... <-` clause i receives from.
func RecvPick[T any](m *Sel, i int, _ <-chan T) <-chan T {
	if m.won != i {
		return nil
	}

	return m.cases[i].priv().(chan T)
}

// SendPick returns the channel the rewritten `case c <- v:` clause i sends to.
func SendPick[T any](m *Sel, i int, _ chan<- T) chan<- T {
	if m.won != i {
		return nil
	}

	return m.cases[i].priv().(chan T)
}

// ---------------------------------------------------------------------------------
// helpers for environment actors

// Won reports which clause of a simulated select won (-1: default).
func (m *Sel) Won() int { return m.won }

// SendOr sends v on c unless done becomes ready first; it reports whether it sent.
func SendOr[T any](site string, c chan<- T, v T, done <-chan struct{}) bool {
	return Select(site, false, SendCase(c, v), RecvCase(done)).won == 0
}

// RecvOr receives from c unless done becomes ready first.
func RecvOr[T any](site string, c <-chan T, done <-chan struct{}) (v T, ok bool, got bool) {
	m := Select(site, false, RecvCase(c), RecvCase(done))
	if m.won != 0 {
		return v, false, false
	}

	v, ok = <-m.cases[0].priv().(chan T)

	return v, ok, true
}

// SleepOr sleeps d on the simulated clock unless done becomes ready first; it reports
// whether the full duration elapsed.
func SleepOr(site string, d time.Duration, done <-chan struct{}) bool {
	if d <= 0 {
		return true
	}

	tm := time.NewTimer(d)
	defer tm.Stop()

	return Select(site, false, RecvCase(tm.C), RecvCase(done)).won == 0
}

// ---------------------------------------------------------------------------------
// map iteration order

// MapKeys returns the keys of m in an order taken from the choice stream: Go's
// randomised map iteration order becomes a seeded, replayable decision. The default
// decision (0) is ascending order; any other decision rotates it.
func MapKeys[K comparable, V any](site string, m map[K]V) []K {
	if len(m) == 0 {
		return nil
	}

	keys := make([]K, 0, len(m))
	for k := range m {
		keys = append(keys, k)
	}

	if len(keys) == 1 {
		return keys
	}

	sortKeys(keys)

	if r := mapOrder(site, len(keys)); r > 0 {
		rot := make([]K, 0, len(keys))
		rot = append(rot, keys[r:]...)
		rot = append(rot, keys[:r]...)

		return rot
	}

	return keys
}

func sortKeys[K comparable](keys []K) {
	switch ks := any(keys).(type) {
	case []uint:
		insertionSort(ks, func(a, b uint) bool { return a < b })
	case []int:
		insertionSort(ks, func(a, b int) bool { return a < b })
	case []string:
		insertionSort(ks, func(a, b string) bool { return a < b })
	case []uint64:
		insertionSort(ks, func(a, b uint64) bool { return a < b })
	case []int64:
		insertionSort(ks, func(a, b int64) bool { return a < b })
	default:
		insertionSort(keys, func(a, b K) bool { return fmt.Sprint(a) < fmt.Sprint(b) })
	}
}

func insertionSort[T any](xs []T, less func(a, b T) bool) {
	for i := 1; i < len(xs); i++ {
		for j := i; j > 0 && less(xs[j], xs[j-1]); j-- {
			xs[j], xs[j-1] = xs[j-1], xs[j]
		}
	}
}

//go:norace
func mapOrder(site string, n int) int {
	s := cur
	if s == nil || s.running == nil {
		return 0
	}

	r := s.ch.choose(chMap, n)
	s.mix(0x61, uint64(r))

	return r
}
