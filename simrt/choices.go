package simrt

// The choice stream: the only source of scheduling and select-arbitration decisions.
// In generate mode values are drawn from a splitmix64 PRNG under a per-run policy and
// recorded; in replay mode they are read from the recorded list (0 = default when the
// list is exhausted). 0 always means the default decision: do not preempt, lowest
// ready task id, select cases in source order.

type chKind uint8

const (
	chPreempt chKind = iota // n = 2: 1 = give the baton back to the scheduler here
	chPick                  // n = candidates: index into the ready tasks sorted by id
	chSelect                // n = cases: rotation of the polling order of a select
	chEnv                   // environment decision drawn at run time
	chMap                   // n = keys: rotation of the (sorted) iteration order of a map
	chStall                 // n = 1 + durations: 0 = no stall, k = the library task stalls for duration k-1 here
)

// Policy parametrises how choices are drawn in generate mode.
type Policy struct {
	Name string
	// PreemptPer1024 is the probability (x/1024) of a preemption at each operation.
	PreemptPer1024 int
	// PreemptAt lists the operation ordinals at which a preemption is forced
	// (run-to-block with K preemptions when PreemptPer1024 == 0).
	PreemptAt []int64
	// PickByPrio orders candidates by a per-task random priority (PCT-like) so that
	// choice 0 means "highest priority"; otherwise by task id.
	PickByPrio bool
	// PickUniform draws the pick uniformly; otherwise 0 (default) is taken.
	PickUniform bool
	// SelectPer1024 is the probability of rotating a select's polling order.
	SelectPer1024 int
	// MapPer1024 is the probability of rotating the iteration order of a map range.
	MapPer1024 int
}

// Choices is a recorded or replayed decision list.
type Choices struct {
	replay bool
	list   []uint16
	pos    int
	rng    SplitMix
	prng   SplitMix // task priorities (PCT-like pick); same values in generate and replay mode
	pseed  uint64
	pol    Policy
	preIdx int
	nPre   int64 // preempt decisions so far
	// stallPer1024 (set by Run from Config): probability of a stall at each stall point
	stallPer1024 int
}

// NewChoices returns a generating choice stream.
func NewChoices(seed uint64, pol Policy) *Choices {
	ps := Mix(seed, 0x77)

	return &Choices{rng: SplitMix{seed}, prng: SplitMix{ps}, pseed: ps, pol: pol}
}

// ReplayChoices returns a stream that replays list.
func ReplayChoices(list []uint16, pickByPrio bool, prioSeed uint64) *Choices {
	return &Choices{replay: true, list: list, prng: SplitMix{prioSeed}, pseed: prioSeed, pol: Policy{PickByPrio: pickByPrio}}
}

// List returns the dense list of decisions taken so far.
func (c *Choices) List() []uint16 { return c.list[:c.pos:c.pos] }

// Count is the number of decisions taken.
func (c *Choices) Count() int { return c.pos }

// NonZero is the number of non-default decisions taken.
//
//go:norace
func (c *Choices) NonZero() int {
	n := 0

	for _, v := range c.list[:c.pos] {
		if v != 0 {
			n++
		}
	}

	return n
}

func (c *Choices) pickByPrio() bool { return c.pol.PickByPrio }

// PickByPrio and PrioSeed are what a replay needs besides the list.
func (c *Choices) PickByPrio() bool { return c.pol.PickByPrio }
func (c *Choices) PrioSeed() uint64 { return c.pseed }

// taskPrio is drawn from a stream of its own so that it is identical in generate and
// replay mode (it does not consume list entries).
//
//go:norace
func (c *Choices) taskPrio() uint64 {
	if !c.pol.PickByPrio {
		return 0
	}

	return c.prng.Next()
}

//go:norace
func (c *Choices) choose(kind chKind, n int) int {
	if n <= 1 {
		return 0
	}

	if c.replay {
		v := 0

		if c.pos < len(c.list) {
			v = int(c.list[c.pos])
		} else {
			c.list = push(c.list, 0)
		}

		c.pos++

		if v >= n {
			v %= n
		}

		return v
	}

	v := 0

	switch kind {
	case chPreempt:
		c.nPre++

		if c.pol.PreemptPer1024 > 0 {
			if int(c.rng.Next()%1024) < c.pol.PreemptPer1024 {
				v = 1
			}
		} else if c.preIdx < len(c.pol.PreemptAt) && c.nPre >= c.pol.PreemptAt[c.preIdx] {
			c.preIdx++
			v = 1
		}
	case chPick:
		if c.pol.PickUniform {
			v = int(c.rng.Next() % uint64(n))
		}
	case chSelect:
		if c.pol.SelectPer1024 > 0 && int(c.rng.Next()%1024) < c.pol.SelectPer1024 {
			v = int(c.rng.Next() % uint64(n))
		}
	case chEnv:
		v = int(c.rng.Next() % uint64(n))
	case chMap:
		if c.pol.MapPer1024 > 0 && int(c.rng.Next()%1024) < c.pol.MapPer1024 {
			v = int(c.rng.Next() % uint64(n))
		}
	case chStall:
		if int(c.rng.Next()%1024) < c.stallPer1024 {
			v = 1 + int(c.rng.Next()%uint64(n-1))
		}
	}

	c.list = push(c.list, uint16(v))
	c.pos++

	return v
}

// SplitMix is splitmix64.
type SplitMix struct{ S uint64 }

//go:norace
func (r *SplitMix) Next() uint64 {
	r.S += 0x9e3779b97f4a7c15
	z := r.S
	z = (z ^ (z >> 30)) * 0xbf58476d1ce4e5b9
	z = (z ^ (z >> 27)) * 0x94d049bb133111eb

	return z ^ (z >> 31)
}

// Intn returns a value in [0, n).
func (r *SplitMix) Intn(n int) int {
	if n <= 0 {
		return 0
	}

	return int(r.Next() % uint64(n))
}

// Mix hashes the given values into one seed.
func Mix(vals ...uint64) uint64 {
	r := SplitMix{0x1234567}

	for _, v := range vals {
		r.S ^= v
		r.Next()
		r.S = r.S*0x2545f4914f6cdd1d + 0x9e3779b97f4a7c15
	}

	return r.Next()
}
