package simrt

import (
	"fmt"
	"testing"
	"testing/synctest"
	"time"
)

// A toy system: producer -> worker (select on input vs ticker) -> consumer.
func toy(n int) func() {
	return func() {
		in := make(chan int)
		out := make(chan int, 1)
		NameRecv(in, "in")
		NameRecv(out, "out")
		GoEnv("producer", func() {
			for i := 0; i < n; i++ {
				Sleep("env:p", time.Duration(i%3)*time.Nanosecond)
				Send("env:p", in, i)
			}
			Close("env:p", in)
		})
		Go("lib:worker", func() {
			tk := time.NewTicker(2 * time.Nanosecond)
			defer tk.Stop()
			for {
				m := Select("lib:sel", false, RecvCase(tk.C), RecvCase(in))
				select {
				case <-RecvPick(m, 0, tk.C):
				case v, ok := <-RecvPick(m, 1, in):
					if !ok {
						Close("lib:close", out)
						return
					}
					Send("lib:send", out, v*10)
				}
			}
		})
		GoEnv("consumer", func() {
			for {
				v, ok := Recv2("env:c", out)
				if !ok {
					return
				}
				Note("got", int64(v), 0)
			}
		})
	}
}

func runToy(t *testing.T, seed uint64, pol Policy) *Result {
	var res *Result
	synctest.Test(t, func(t *testing.T) {
		res = Run(Config{MaxSteps: 100000, Horizon: time.Second}, NewChoices(seed, pol), toy(20))
	})
	return res
}

func TestToy(t *testing.T) {
	pols := []Policy{{Name: "rtb"}, {Name: "u", PreemptPer1024: 256, PickUniform: true, SelectPer1024: 512}, {Name: "pct", PreemptPer1024: 64, PickByPrio: true}}
	seen := map[uint64]bool{}
	for seed := uint64(1); seed <= 200; seed++ {
		pol := pols[seed%3]
		a := runToy(t, seed, pol)
		b := runToy(t, seed, pol)
		if a.Hash != b.Hash || a.Steps != b.Steps {
			t.Fatalf("seed %d not deterministic: %x %x", seed, a.Hash, b.Hash)
		}
		if !a.AllDone {
			t.Fatalf("seed %d: not all done: %+v", seed, a.Tasks)
		}
		got := 0
		for _, r := range a.Hist {
			if r.Kind == KNote {
				if r.Val != int64(got*10) {
					t.Fatalf("order")
				}
				got++
			}
		}
		if got != 20 {
			t.Fatalf("got %d", got)
		}
		seen[a.Sig] = true
	}
	fmt.Println("distinct signatures:", len(seen))
}

func TestReplay(t *testing.T) {
	pol := Policy{Name: "u", PreemptPer1024: 256, PickUniform: true, SelectPer1024: 512}
	var a, b *Result
	var ch *Choices
	synctest.Test(t, func(t *testing.T) {
		ch = NewChoices(7, pol)
		a = Run(Config{MaxSteps: 100000, Horizon: time.Second}, ch, toy(20))
	})
	synctest.Test(t, func(t *testing.T) {
		b = Run(Config{MaxSteps: 100000, Horizon: time.Second}, ReplayChoices(ch.List(), false, ch.PrioSeed()), toy(20))
	})
	if a.Hash != b.Hash {
		t.Fatalf("replay differs")
	}
	fmt.Println("steps", a.Steps, "choices", a.Choices, "nonzero", ch.NonZero(), "switches", a.Switches)
}

func TestAbortAndDeadlock(t *testing.T) {
	func() {
		defer func() { recover() }()
		synctest.Test(t, func(t *testing.T) {
			res := Run(Config{MaxSteps: 50, Horizon: time.Second}, NewChoices(1, Policy{}), func() {
				for {
					Yield("env:spin")
				}
			})
			if !res.Aborted {
				t.Errorf("expected abort")
			}
		})
	}()
	func() {
		defer func() { recover() }()
		synctest.Test(t, func(t *testing.T) {
			res := Run(Config{MaxSteps: 5000, Horizon: time.Second}, NewChoices(1, Policy{}), func() {
				c := make(chan int)
				Recv("env:never", c)
			})
			if !res.HorizonHit || res.Tasks[0].BlockSite != "env:never" {
				t.Errorf("expected horizon: %+v", res)
			}
		})
	}()
}
