module verif/simrt

go 1.26
