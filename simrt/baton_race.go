//go:build race

package simrt

import (
	"runtime"
	"testing/synctest"
	"time"
)

// In the race build the simulator's own hand-over traffic must stay invisible to the
// detector: a baton passed over a channel would order every pair of consecutive steps
// and hide every race of the program under test. Only these few operations are
// bracketed; the program's own channel operations keep their genuine edges.

//go:norace
func batonWake(t *task) {
	runtime.RaceDisable()
	t.wake <- struct{}{}
	runtime.RaceEnable()
}

//go:norace
func batonPark(t *task) {
	runtime.RaceDisable()
	<-t.wake
	runtime.RaceEnable()
}

//go:norace
func eventPost(s *Sim, e event) {
	runtime.RaceDisable()
	s.events <- e
	runtime.RaceEnable()
}

//go:norace
func quiesce() {
	runtime.RaceDisable()
	synctest.Wait()
	runtime.RaceEnable()
}

//go:norace
func eventPoll(s *Sim) (event, bool) {
	runtime.RaceDisable()
	defer runtime.RaceEnable()
	select {
	case e := <-s.events:
		return e, true
	default:
		return event{}, false
	}
}

const RaceBuild = true

func raceErrors() int { return runtime.RaceErrors() }

func settle() { synctest.Wait() }

//go:norace
func eventWait(s *Sim, horizon, probe *time.Timer) (event, int) {
	runtime.RaceDisable()
	defer runtime.RaceEnable()

	var probeC <-chan time.Time
	if probe != nil {
		probeC = probe.C
	}

	select {
	case e := <-s.events:
		return e, waitEvent
	case <-horizon.C:
		return event{}, waitHorizon
	case <-probeC:
		return event{}, waitProbe
	}
}
