// Package simrt is the runtime of the deterministic simulator.
//
// Every goroutine of the system under test and of its environment is a task. Exactly
// one task runs at a time (it holds the baton); which one runs next, and which ready
// case a select takes, is decided by a seeded choice stream. Channels, timers,
// contexts and WaitGroups are Go's own; time is the fake clock of a testing/synctest
// bubble, which advances only when every task is durably blocked.
package simrt

import (
	"fmt"
	"time"
	"unsafe"
)

type state uint8

const (
	stReady state = iota
	stRunning
	stBlocked
	stWaitStep
	stDone
)

type evKind uint8

const (
	evReady evKind = iota
	evBlocked
	evDone
	evAbort
	evWaitStep
)

type event struct {
	t    *task
	kind evKind
}

type task struct {
	id    int
	name  string // site of the go statement (library) or the actor name (environment)
	lib   bool
	wake  chan struct{}
	state state

	blockSite string
	waitStep  int64
	stalling  bool // inside an injected stall (its own wake-up is not stalled again)

	// PCT-like priority used by the "prio" pick mode.
	prio uint64
}

// Config bounds one run.
type Config struct {
	MaxSteps int64         // step budget; exhausting it aborts the run
	Horizon  time.Duration // simulated-time horizon; reaching it ends the run
	KeepLog  bool          // keep the full event log text (replay / debugging)
	// LivelockSteps aborts the run when that many operations were executed without a
	// single completed visible operation and without the clock advancing (0: off).
	LivelockSteps int64
	// Stalls (fault: slow or stalled task): at the start of a library task and before each
	// of its operations the task may stop for one of StallDurs of simulated time, as a
	// goroutine does that is descheduled, hit by a GC pause or running on a busy machine.
	// At most MaxStalls per run; StallPer1024 is the probability at each point in generate
	// mode. No stall decisions are drawn when StallDurs is empty.
	// RecordEmptyPolls: a library select that takes its default arm leaves a KSelDefault
	// record for every channel it tried to receive from (off by default: an idle polling
	// loop would fill the history with them).
	RecordEmptyPolls bool
	StallDurs        []time.Duration
	StallPer1024     int
	MaxStalls        int
}

// Sim is one simulated execution.
type Sim struct {
	cfg Config
	ch  *Choices

	tasks   []*task
	events  chan event
	running *task
	start   time.Time

	step int64
	seq  int64

	stalls int

	hist []Rec

	// Bookkeeping shared by all tasks lives in plain slices grown by hand inside
	// norace functions: maps and append call into runtime helpers that report to the
	// race detector on behalf of their caller, and the baton that orders these
	// accesses is deliberately invisible to the detector.
	chans   []chanInfo
	chanTab []int32 // open-addressing index into chans (ordinal, 0 = empty)

	closedRecvs []uint64 // (task, channel) pairs whose closed receive is already in the history

	sites    [siteSlots]*SiteStat
	siteList []*SiteStat

	vars [64]int64

	hash uint64
	sig  uint64

	aborted     bool
	livelock    bool
	abortReason string
	horizonHit  bool
	panics      []string

	nextWaitStep int64 // smallest step target among step waiters (or max)
	progressStep int64 // step of the last record or clock advance

	multiReady int64 // scheduler visits at which >1 task was ready
	switches   int64
	schedVisit int64
	quiescents int64

	logText []string

	raceBase int
}

// SiteStat counts what happened at one synchronisation site.
type SiteStat struct {
	Site    string
	Hits    int64
	Blocked int64
	Cases   [maxCases + 1]int64 // select: times clause i-1 was taken (index 0 = default)
}

const (
	siteSlots = 2048
	maxCases  = 15
)

type chanInfo struct {
	ref  unsafe.Pointer // keeps the channel alive for the whole run (see chanOrd)
	name string
}

// push appends without calling the runtime's (race-instrumented) growslice.
//
//go:norace
func push[T any](sl []T, v T) []T {
	if len(sl) < cap(sl) {
		sl = sl[:len(sl)+1]
		sl[len(sl)-1] = v

		return sl
	}

	n := make([]T, len(sl)+1, 2*cap(sl)+64)

	for i := range sl {
		n[i] = sl[i]
	}

	n[len(sl)] = v

	return n
}

//go:norace
func (s *Sim) site(name string) *SiteStat {
	i := hashString(name) % siteSlots

	for {
		st := s.sites[i]
		if st == nil {
			st = &SiteStat{Site: name}
			s.sites[i] = st
			s.siteList = push(s.siteList, st)

			return st
		}

		if st.Site == name {
			return st
		}

		i = (i + 1) % siteSlots
	}
}

var cur *Sim

// Result is what one run produced.
type Result struct {
	Hist        []Rec
	Steps       int64
	SimNanos    int64
	Hash        uint64
	Sig         uint64
	Aborted     bool
	Livelock    bool // aborted because tasks kept running without completing any visible operation
	AbortReason string
	HorizonHit  bool
	AllDone     bool
	Panics      []string
	Tasks       []TaskInfo
	Sites       []*SiteStat
	MultiReady  int64
	Switches    int64
	SchedVisits int64
	Quiescents  int64
	Choices     int
	RaceReports int
	LogText     []string
}

// TaskInfo describes a task at the end of the run.
type TaskInfo struct {
	ID        int
	Name      string
	Lib       bool
	Done      bool
	BlockSite string
	State     string
}

const never = int64(1<<62 - 1)

// stepWaitSilence: see the scheduler loop.
const stepWaitSilence = 5 * time.Microsecond

const (
	waitEvent = iota
	waitHorizon
	waitProbe
)

//go:norace
func (s *Sim) hasStepWaiters() bool {
	for _, t := range s.tasks {
		if t.state == stWaitStep {
			return true
		}
	}

	return false
}

// Run executes main as task 0 under the scheduler and returns when every task has
// finished, the horizon was reached or the run was aborted. It must be called from the
// root goroutine of a testing/synctest bubble.
//
//go:norace
func Run(cfg Config, ch *Choices, main func()) *Result {
	s := &Sim{
		cfg:          cfg,
		ch:           ch,
		events:       make(chan event, 1<<10),
		start:        time.Now(),
		hash:         1469598103934665603,
		sig:          1469598103934665603,
		nextWaitStep: never,
		raceBase:     raceErrors(),
	}
	cur = s
	ch.stallPer1024 = cfg.StallPer1024

	spawn(s, "env:main", false, main)

	horizon := time.NewTimer(cfg.Horizon)
	defer horizon.Stop()

	allDone := false

	for {
		quiesce()
		s.drain()

		if s.aborted {
			break
		}

		s.promoteStepWaiters(false)

		ready := s.readySet()

		if len(ready) == 0 {
			if s.allDone() {
				allDone = true
				break
			}

			s.quiescents++
			s.mix(0x51, uint64(s.now()))
			s.progressStep = s.step

			// An actor waiting for "n more operations" must not wait for ever when the
			// system has gone silent: if nothing becomes runnable for stepWaitSilence of
			// simulated time, the earliest such actor is released.
			var probe *time.Timer

			if s.hasStepWaiters() {
				probe = time.NewTimer(stepWaitSilence)
			}

			ev, what := eventWait(s, horizon, probe)

			if probe != nil {
				probe.Stop()
			}

			if what == waitHorizon {
				s.horizonHit = true
				break
			}

			if what == waitProbe {
				s.promoteStepWaiters(true)
				continue
			}

			s.apply(ev)

			continue
		}

		s.schedVisit++

		if len(ready) > 1 {
			s.multiReady++
		}

		t := s.pick(ready)

		if s.running != t {
			s.switches++
		}

		t.state = stRunning
		s.running = t

		batonWake(t)
	}

	// From here on no task holds the baton. One ordinary quiescence point orders
	// everything the tasks wrote before the root reads it (matters in the race build).
	settle()

	for i := range s.hist {
		if c := s.hist[i].Ch; c > 0 {
			s.hist[i].ChName = s.chans[c-1].name
		}

		if s.cfg.KeepLog {
			s.logText = push(s.logText, s.hist[i].String())
		}
	}

	res := &Result{
		Hist:        s.hist,
		Steps:       s.step,
		SimNanos:    int64(time.Since(s.start)),
		Hash:        s.hash,
		Sig:         s.sig,
		Aborted:     s.aborted,
		Livelock:    s.livelock,
		AbortReason: s.abortReason,
		HorizonHit:  s.horizonHit,
		AllDone:     allDone,
		Panics:      s.panics,
		Sites:       s.siteList,
		MultiReady:  s.multiReady,
		Switches:    s.switches,
		SchedVisits: s.schedVisit,
		Quiescents:  s.quiescents,
		Choices:     ch.Count(),
		RaceReports: raceErrors() - s.raceBase,
		LogText:     s.logText,
	}

	for _, t := range s.tasks {
		res.Tasks = push(res.Tasks, TaskInfo{
			ID:        t.id,
			Name:      t.name,
			Lib:       t.lib,
			Done:      t.state == stDone,
			BlockSite: t.blockSite,
			State:     stateName(t.state),
		})
	}

	// The sim stays reachable through abandoned tasks (their goroutines are parked for
	// ever): mark it dead, and drop everything big it holds so that an abandoned run costs
	// a few goroutine stacks, not its whole history.
	s.aborted = true
	s.hist, s.logText, s.chans, s.chanTab, s.closedRecvs, s.siteList = nil, nil, nil, nil, nil, nil
	s.events = nil // (an abandoned task that were ever woken would block on it: fine)
	s.sites = [siteSlots]*SiteStat{}

	return res
}

func stateName(s state) string {
	switch s {
	case stReady:
		return "ready"
	case stRunning:
		return "running"
	case stBlocked:
		return "blocked"
	case stWaitStep:
		return "waitstep"
	case stDone:
		return "done"
	}

	return "?"
}

//go:norace
func (s *Sim) now() int64 { return int64(time.Since(s.start)) }

//go:norace
func (s *Sim) drain() {
	for {
		ev, ok := eventPoll(s)
		if !ok {
			return
		}

		s.apply(ev)
	}
}

//go:norace
func (s *Sim) apply(ev event) {
	switch ev.kind {
	case evReady:
		ev.t.state = stReady
	case evBlocked:
		ev.t.state = stBlocked
	case evDone:
		ev.t.state = stDone
	case evWaitStep:
		ev.t.state = stWaitStep
	case evAbort:
		// state of the aborting task is irrelevant, s.aborted is already set
	}
}

//go:norace
func (s *Sim) allDone() bool {
	for _, t := range s.tasks {
		if t.state != stDone {
			return false
		}
	}

	return true
}

//go:norace
func (s *Sim) readySet() []*task {
	var ready []*task

	for _, t := range s.tasks { // s.tasks is ordered by id
		if t.state == stReady || t.state == stRunning {
			ready = push(ready, t)
		}
	}

	return ready
}

// promoteStepWaiters makes step waiters whose target was reached ready. With force it
// promotes the earliest waiter even if its target was not reached (nothing else can
// run, so the step counter cannot move otherwise).
//
//go:norace
func (s *Sim) promoteStepWaiters(force bool) bool {
	promoted := false
	next := never

	var earliest *task

	for _, t := range s.tasks {
		if t.state != stWaitStep {
			continue
		}

		if t.waitStep <= s.step {
			t.state = stReady
			promoted = true

			continue
		}

		if t.waitStep < next {
			next = t.waitStep
			earliest = t
		}
	}

	if !promoted && force && earliest != nil {
		earliest.state = stReady
		promoted = true

		next = never

		for _, t := range s.tasks {
			if t.state == stWaitStep && t.waitStep < next {
				next = t.waitStep
			}
		}
	}

	s.nextWaitStep = next

	return promoted
}

// pick chooses the task that gets the baton. ready is sorted by task id and not empty.
//
//go:norace
func (s *Sim) pick(ready []*task) *task {
	// A task that yielded voluntarily (state stReady, s.running == it) because the
	// choice stream asked for a preemption is excluded if anything else can run.
	cands := ready

	if s.running != nil && s.running.state == stReady && len(ready) > 1 {
		cands = nil

		for _, t := range ready {
			if t != s.running {
				cands = push(cands, t)
			}
		}
	}

	if len(cands) == 1 {
		return cands[0]
	}

	if s.ch.pickByPrio() {
		for i := 1; i < len(cands); i++ { // stable insertion sort, highest priority first
			for j := i; j > 0 && cands[j].prio > cands[j-1].prio; j-- {
				cands[j], cands[j-1] = cands[j-1], cands[j]
			}
		}
	}

	k := s.ch.choose(chPick, len(cands))
	s.mix(0x50, uint64(k))

	return cands[k]
}

//go:norace
func (s *Sim) mix(tag uint64, v uint64) {
	s.hash = (s.hash ^ tag) * 1099511628211
	s.hash = (s.hash ^ v) * 1099511628211
}

//go:norace
func (s *Sim) mixSig(v uint64) {
	s.sig = (s.sig ^ v) * 1099511628211
}

//go:norace
func hashString(str string) uint64 {
	h := uint64(1469598103934665603)

	for i := 0; i < len(str); i++ {
		h = (h ^ uint64(str[i])) * 1099511628211
	}

	return h
}

// spawn registers a new task and starts its goroutine. Called by the root before the
// loop (main task) or by the baton holder.
//
//go:norace
func spawn(s *Sim, name string, lib bool, f func()) *task {
	t := &task{
		id:    len(s.tasks),
		name:  name,
		lib:   lib,
		wake:  make(chan struct{}, 1),
		state: stReady,
		prio:  s.ch.taskPrio(),
	}

	s.tasks = push(s.tasks, t)

	go taskBody(s, t, f)

	return t
}

func taskBody(s *Sim, t *task, f func()) {
	batonPark(t)

	defer taskExit(s, t)

	if t.lib {
		s.maybeStall(t, "sim:stall-at-start")
	}

	f()
}

// maybeStall is a stall point of a library task (the baton holder).
//
//go:norace
func (s *Sim) maybeStall(t *task, site string) {
	if len(s.cfg.StallDurs) == 0 || s.stalls >= s.cfg.MaxStalls || s.aborted {
		return
	}

	k := s.ch.choose(chStall, len(s.cfg.StallDurs)+1)
	if k == 0 {
		return
	}

	d := s.cfg.StallDurs[k-1]
	if d <= 0 {
		return
	}

	s.stalls++
	s.record(Rec{Kind: KNote, Site: site, Note: "sim-stall", Val: int64(d)}, t)
	s.mix(uint64(opSleep), uint64(d)^uint64(t.id)<<48)

	t.stalling = true
	s.blocked(t, site)
	time.Sleep(d)
	s.resume(t)
	t.stalling = false
}

//go:norace
func taskExit(s *Sim, t *task) {
	if r := recover(); r != nil {
		if t.state == stBlocked {
			// the panic was raised by the Go runtime while the task was blocked (for
			// example a send on a channel closed meanwhile): take the baton first
			s.resume(t)
		}

		msg := fmt.Sprintf("task %d (%s) panicked: %v", t.id, t.name, r)
		s.panics = push(s.panics, msg)
		s.record(Rec{Kind: KPanic, Note: msg}, t)
	}

	s.record(Rec{Kind: KExit}, t)
	eventPost(s, event{t, evDone})
}

func parkForever(t *task) {
	for {
		batonPark(t)
	}
}

// enter is the prologue of every simulator operation executed by the baton holder:
// count the step, enforce the budget, and offer the scheduler a preemption point.
//
//go:norace
func enter(site string, kind uint64) (*Sim, *task) {
	s := cur
	t := s.running

	if s.aborted {
		parkForever(t)
	}

	s.step++

	s.site(site).Hits++

	s.mix(kind, hashString(site)^uint64(t.id)<<48^uint64(s.step))

	if s.step > s.cfg.MaxSteps {
		s.abort(t, "step budget exhausted")
	}

	if s.cfg.LivelockSteps > 0 && s.step-s.progressStep > s.cfg.LivelockSteps {
		s.livelock = true
		s.abort(t, "livelock: "+site)
	}

	if t.lib {
		s.maybeStall(t, "sim:stall")
	}

	if s.step >= s.nextWaitStep || s.ch.choose(chPreempt, 2) == 1 {
		t.state = stReady
		eventPost(s, event{t, evReady})
		batonPark(t)
	}

	return s, t
}

//go:norace
func (s *Sim) abort(t *task, reason string) {
	s.aborted = true
	s.abortReason = reason
	eventPost(s, event{t, evAbort})
	parkForever(t)
}

// blocked announces that the caller is about to block in the Go runtime.
//
//go:norace
func (s *Sim) blocked(t *task, site string) {
	t.blockSite = site

	s.site(site).Blocked++

	eventPost(s, event{t, evBlocked})
}

// resume is called by a task the Go runtime has just woken: it executes nothing of the
// program until the scheduler hands it the baton again.
//
//go:norace
func (s *Sim) resume(t *task) {
	eventPost(s, event{t, evReady})
	batonPark(t)

	t.blockSite = ""

	if s.aborted {
		parkForever(t)
	}

	// wake-up latency: a goroutine that was woken (by a timer, a channel partner) does not
	// run in the same instant on real hardware
	if t.lib && !t.stalling {
		s.maybeStall(t, "sim:stall-at-wakeup")
	}
}

// Abort ends the run from inside a task (used by environment actors on internal
// inconsistencies).
func Abort(reason string) {
	s := cur
	s.abort(s.running, reason)
}
