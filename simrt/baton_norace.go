//go:build !race

package simrt

import (
	"testing/synctest"
	"time"
)

// In the normal build the baton is plain channel traffic.

func batonWake(t *task)         { t.wake <- struct{}{} }
func batonPark(t *task)         { <-t.wake }
func eventPost(s *Sim, e event) { s.events <- e }
func quiesce()                  { synctest.Wait() }

func eventPoll(s *Sim) (event, bool) {
	select {
	case e := <-s.events:
		return e, true
	default:
		return event{}, false
	}
}

// RaceBuild reports whether the simulator was compiled with the race detector.
const RaceBuild = false

func raceErrors() int { return 0 }

func settle() { synctest.Wait() }

func eventWait(s *Sim, horizon, probe *time.Timer) (event, int) {
	var probeC <-chan time.Time
	if probe != nil {
		probeC = probe.C
	}

	select {
	case e := <-s.events:
		return e, waitEvent
	case <-horizon.C:
		return event{}, waitHorizon
	case <-probeC:
		return event{}, waitProbe
	}
}
