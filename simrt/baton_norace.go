//go:build !race

package simrt

import (
	"testing/synctest"
	"time"
)

// In the normal build the baton is plain channel traffic.

func batonWake(t *task)        { t.wake <- struct{}{} }
func batonPark(t *task)        { <-t.wake }
func eventPost(s *Sim, e event) { s.events <- e }
func quiesce()                 { synctest.Wait() }

func eventPoll(s *Sim) (event, bool) {
	select {
	case e := <-s.events:
		return e, true
	default:
		return event{}, false
	}
}

// RaceBuild reports whether the simulator was compiled with the race detector.
const RaceBuild = false

func raceErrors() int { return 0 }

func settle() { synctest.Wait() }

func eventWait(s *Sim, horizon *time.Timer) (event, bool) {
	select {
	case e := <-s.events:
		return e, true
	case <-horizon.C:
		return event{}, false
	}
}
