// simgen copies the working tree of akramarenkov/cqos (both modules) and of the one
// dependency that blocks (akramarenkov/breaker) into a scratch directory and rewrites
// every synchronisation point into a call into verif/simrt. Nothing else is touched:
// function bodies, control flow, arithmetic and all other time.* calls stay as written.
//
// Exit status: 0 ok, 2 on anything simgen does not know how to rewrite soundly.
package main

import (
	"bytes"
	"encoding/json"
	"flag"
	"fmt"
	"go/ast"
	"go/format"
	"go/token"
	"go/types"
	"io"
	"io/fs"
	"os"
	"path/filepath"
	"regexp"
	"sort"
	"strconv"
	"strings"

	"golang.org/x/tools/go/ast/astutil"
	"golang.org/x/tools/go/packages"
)

const simrtPath = "verif/simrt"

var (
	repoDir    = flag.String("repo", "/repo", "cqos working tree")
	outDir     = flag.String("out", "", "scratch directory (created, must not exist inside /repo or /verif)")
	verifDir   = flag.String("verif", "/verif", "verification tree (simrt and harness are copied from it)")
	modCache   = flag.String("modcache", "", "module cache (default: go env GOMODCACHE)")
	goBin      = flag.String("go", "go1.26.8", "go command used to load packages")
	listOnly   = flag.Bool("list", false, "only print the rewrite sites")
	skipPkgsRE = regexp.MustCompile(`^github\.com/akramarenkov/breaker/closing$`)
)

// Roots of the import graph that gets instrumented.
var roots = []string{
	"github.com/akramarenkov/cqos/join",
	"github.com/akramarenkov/cqos/priority",
	"github.com/akramarenkov/cqos/v2/join",
	"github.com/akramarenkov/cqos/v2/join/unite",
	"github.com/akramarenkov/cqos/v2/limit",
	"github.com/akramarenkov/cqos/v2/priority",
	"github.com/akramarenkov/cqos/v2/priority/simple",
	"github.com/akramarenkov/cqos/v2/priority/divider",
	"github.com/akramarenkov/cqos/v2/priority/utils",
	"github.com/akramarenkov/breaker",
}

func isOurs(pkgPath string) bool {
	if skipPkgsRE.MatchString(pkgPath) {
		return false
	}

	return pkgPath == "github.com/akramarenkov/cqos" ||
		strings.HasPrefix(pkgPath, "github.com/akramarenkov/cqos/") ||
		pkgPath == "github.com/akramarenkov/breaker" ||
		strings.HasPrefix(pkgPath, "github.com/akramarenkov/breaker/")
}

func die(format string, args ...any) {
	fmt.Fprintf(os.Stderr, "simgen: "+format+"\n", args...)
	os.Exit(2)
}

func main() {
	flag.Parse()

	if *outDir == "" {
		die("-out is required")
	}

	out, err := filepath.Abs(*outDir)
	if err != nil {
		die("%v", err)
	}

	for _, forbidden := range []string{*repoDir, *verifDir} {
		f, _ := filepath.Abs(forbidden)
		if out == f || strings.HasPrefix(out, f+string(filepath.Separator)) {
			die("scratch directory %s must be outside %s", out, f)
		}
	}

	if err := os.MkdirAll(out, 0o755); err != nil {
		die("%v", err)
	}

	breakerVer := requiredVersion(filepath.Join(*repoDir, "go.mod"), "github.com/akramarenkov/breaker")
	if breakerVer == "" {
		die("cannot find the breaker requirement in %s/go.mod", *repoDir)
	}

	mc := *modCache
	if mc == "" {
		mc = os.Getenv("GOMODCACHE")
	}

	if mc == "" {
		home, _ := os.UserHomeDir()
		mc = filepath.Join(home, "go", "pkg", "mod")
	}

	copyTree(*repoDir, filepath.Join(out, "cqos"), true)
	copyTree(filepath.Join(mc, "github.com/akramarenkov/breaker@"+breakerVer), filepath.Join(out, "breaker"), true)
	copyTree(filepath.Join(*verifDir, "simrt"), filepath.Join(out, "simrt"), false)
	copyTree(filepath.Join(*verifDir, "harness"), filepath.Join(out, "harness"), false)

	writeHarnessMod(out)

	sites := instrument(out)

	data, _ := json.MarshalIndent(sites, "", " ")
	if err := os.WriteFile(filepath.Join(out, "sites.json"), data, 0o644); err != nil {
		die("%v", err)
	}

	if *listOnly {
		os.Stdout.Write(data)
	}
}

func requiredVersion(gomod, mod string) string {
	data, err := os.ReadFile(gomod)
	if err != nil {
		die("%v", err)
	}

	re := regexp.MustCompile(`(?m)^\s*(?:require\s+)?` + regexp.QuoteMeta(mod) + `\s+(v\S+)`)

	m := re.FindSubmatch(data)
	if m == nil {
		return ""
	}

	return string(m[1])
}

// copyTree copies Go sources and module files. With libOnly, test files and
// directories that are not part of a build (.git, testdata) are skipped.
func copyTree(src, dst string, libOnly bool) {
	err := filepath.WalkDir(src, func(path string, d fs.DirEntry, err error) error {
		if err != nil {
			return err
		}

		rel, _ := filepath.Rel(src, path)

		if d.IsDir() {
			name := d.Name()
			if rel != "." && (strings.HasPrefix(name, ".") || name == "testdata" || name == "vendor") {
				return filepath.SkipDir
			}

			return os.MkdirAll(filepath.Join(dst, rel), 0o755)
		}

		name := d.Name()

		keep := strings.HasSuffix(name, ".go") || name == "go.mod" || name == "go.sum"
		if libOnly && strings.HasSuffix(name, "_test.go") {
			keep = false
		}

		if !keep || !d.Type().IsRegular() {
			return nil
		}

		in, err := os.Open(path)
		if err != nil {
			return err
		}
		defer in.Close()

		o, err := os.OpenFile(filepath.Join(dst, rel), os.O_CREATE|os.O_TRUNC|os.O_WRONLY, 0o644)
		if err != nil {
			return err
		}
		defer o.Close()

		_, err = io.Copy(o, in)

		return err
	})
	if err != nil {
		die("copy %s: %v", src, err)
	}
}

func writeHarnessMod(out string) {
	mod := `module verif/harness

go 1.26

require (
	github.com/akramarenkov/breaker v0.0.0
	github.com/akramarenkov/cqos v0.0.0
	github.com/akramarenkov/cqos/v2 v2.0.0
	verif/simrt v0.0.0
)

replace (
	github.com/akramarenkov/breaker => ../breaker
	github.com/akramarenkov/cqos => ../cqos
	github.com/akramarenkov/cqos/v2 => ../cqos/v2
	verif/simrt => ../simrt
)
`
	if err := os.WriteFile(filepath.Join(out, "harness", "go.mod"), []byte(mod), 0o644); err != nil {
		die("%v", err)
	}

	var sum bytes.Buffer

	for _, f := range []string{"cqos/go.sum", "cqos/v2/go.sum", "breaker/go.sum"} {
		data, err := os.ReadFile(filepath.Join(out, f))
		if err == nil {
			sum.Write(data)

			if len(data) > 0 && data[len(data)-1] != '\n' {
				sum.WriteByte('\n')
			}
		}
	}

	if err := os.WriteFile(filepath.Join(out, "harness", "go.sum"), sum.Bytes(), 0o644); err != nil {
		die("%v", err)
	}
}

// Site is one rewritten synchronisation point.
type Site struct {
	Site string `json:"site"`
	Kind string `json:"kind"`
}

func instrument(out string) []Site {
	cfg := &packages.Config{
		Mode: packages.NeedName | packages.NeedFiles | packages.NeedCompiledGoFiles | packages.NeedSyntax |
			packages.NeedTypes | packages.NeedTypesInfo | packages.NeedImports | packages.NeedDeps | packages.NeedModule,
		Dir: filepath.Join(out, "harness"),
		Env: append(os.Environ(), "GOFLAGS=-mod=mod", "GOPROXY=off", "GOSUMDB=off", "GOTOOLCHAIN=local", "GOWORK=off"),
	}

	if *goBin != "" {
		// go/packages runs "go list"; make sure it is the toolchain the harness is built with
		p, err := lookGo(*goBin)
		if err != nil {
			die("%v", err)
		}

		if real, err := filepath.EvalSymlinks(p); err == nil {
			p = real
		}

		// os/exec resolves "go" through this process's PATH
		os.Setenv("PATH", filepath.Dir(p)+string(os.PathListSeparator)+os.Getenv("PATH"))
		cfg.Env = append(cfg.Env, "PATH="+os.Getenv("PATH"))
	}

	pkgs, err := packages.Load(cfg, roots...)
	if err != nil {
		die("load: %v", err)
	}

	var (
		all   []*packages.Package
		seen  = map[string]bool{}
		visit func(p *packages.Package)
	)

	visit = func(p *packages.Package) {
		if seen[p.PkgPath] {
			return
		}

		seen[p.PkgPath] = true

		if !isOurs(p.PkgPath) {
			return
		}

		all = append(all, p)

		for _, imp := range p.Imports {
			visit(imp)
		}
	}

	for _, p := range pkgs {
		if len(p.Errors) > 0 {
			die("package %s: %v", p.PkgPath, p.Errors)
		}

		visit(p)
	}

	sort.Slice(all, func(i, j int) bool { return all[i].PkgPath < all[j].PkgPath })

	var sites []Site

	for _, p := range all {
		if len(p.Errors) > 0 {
			die("package %s: %v", p.PkgPath, p.Errors)
		}

		if p.TypesInfo == nil || len(p.Syntax) != len(p.CompiledGoFiles) {
			die("package %s: no type information", p.PkgPath)
		}

		for i, file := range p.Syntax {
			path := p.CompiledGoFiles[i]

			rel, err := filepath.Rel(out, path)
			if err != nil || strings.HasPrefix(rel, "..") {
				die("file %s of %s is outside the scratch copy", path, p.PkgPath)
			}

			rel = strings.TrimPrefix(rel, "cqos/")

			rw := &rewriter{fset: p.Fset, info: p.TypesInfo, file: file, rel: rel, skip: map[ast.Node]bool{}, inner: map[ast.Node]ast.Stmt{}}
			rw.run()

			if !rw.changed {
				continue
			}

			sites = append(sites, rw.sites...)

			// new nodes carry no positions, so free-floating comments would be printed
			// at arbitrary places: keep only what precedes the package clause
			var kept []*ast.CommentGroup

			for _, cg := range file.Comments {
				if cg.End() < file.Package {
					kept = append(kept, cg)
				}
			}

			file.Comments = kept

			astutil.AddNamedImport(p.Fset, file, "simrt", simrtPath)

			for _, imp := range file.Imports {
				ipath, _ := strconv.Unquote(imp.Path.Value)
				if ipath == simrtPath {
					continue
				}

				if imp.Name != nil && (imp.Name.Name == "_" || imp.Name.Name == ".") {
					continue
				}

				if !astutil.UsesImport(file, ipath) {
					if imp.Name != nil {
						astutil.DeleteNamedImport(p.Fset, file, imp.Name.Name, ipath)
					} else {
						astutil.DeleteImport(p.Fset, file, ipath)
					}
				}
			}

			var buf bytes.Buffer
			if err := format.Node(&buf, p.Fset, file); err != nil {
				die("print %s: %v", path, err)
			}

			if err := os.WriteFile(path, buf.Bytes(), 0o644); err != nil {
				die("%v", err)
			}
		}
	}

	return sites
}

func lookGo(name string) (string, error) {
	if strings.ContainsRune(name, filepath.Separator) {
		return name, nil
	}

	for _, dir := range filepath.SplitList(os.Getenv("PATH")) {
		p := filepath.Join(dir, name)
		if st, err := os.Stat(p); err == nil && !st.IsDir() {
			return p, nil
		}
	}

	return "", fmt.Errorf("%s not found", name)
}

// ---------------------------------------------------------------------------------

type rewriter struct {
	fset    *token.FileSet
	info    *types.Info
	file    *ast.File
	rel     string
	changed bool
	tmp     int
	skip    map[ast.Node]bool
	inner   map[ast.Node]ast.Stmt // our wrapping block -> the statement a label must stay on
	sites   []Site
}

func (rw *rewriter) refuse(n ast.Node, what string) {
	die("%s: %s — not handled by the instrumenter (see DESIGN.md §2.2)", rw.fset.Position(n.Pos()), what)
}

func (rw *rewriter) site(n ast.Node, kind string) ast.Expr {
	pos := rw.fset.Position(n.Pos())
	s := fmt.Sprintf("lib:%s:%d", rw.rel, pos.Line)
	rw.sites = append(rw.sites, Site{Site: s, Kind: kind})
	rw.changed = true

	return &ast.BasicLit{Kind: token.STRING, Value: strconv.Quote(s)}
}

func simrtSel(name string) ast.Expr {
	return &ast.SelectorExpr{X: ast.NewIdent("simrt"), Sel: ast.NewIdent(name)}
}

func call(name string, args ...ast.Expr) *ast.CallExpr {
	return &ast.CallExpr{Fun: simrtSel(name), Args: args}
}

func (rw *rewriter) fresh(prefix string) *ast.Ident {
	rw.tmp++
	return ast.NewIdent(fmt.Sprintf("sim%s%d", prefix, rw.tmp))
}

func define(lhs *ast.Ident, rhs ast.Expr) ast.Stmt {
	return &ast.AssignStmt{Lhs: []ast.Expr{lhs}, Tok: token.DEFINE, Rhs: []ast.Expr{rhs}}
}

func unparen(e ast.Expr) ast.Expr {
	for {
		p, ok := e.(*ast.ParenExpr)
		if !ok {
			return e
		}

		e = p.X
	}
}

func (rw *rewriter) isConst(e ast.Expr) bool {
	tv, ok := rw.info.Types[e]
	if !ok {
		return false
	}

	return tv.Value != nil || tv.IsNil()
}

func (rw *rewriter) isChan(e ast.Expr) bool {
	t := rw.info.TypeOf(e)
	if t == nil {
		return false
	}

	// core type of a type parameter constrained to channels is not supported
	_, ok := t.Underlying().(*types.Chan)

	return ok
}

func (rw *rewriter) isMap(e ast.Expr) bool {
	t := rw.info.TypeOf(e)
	if t == nil {
		return false
	}

	_, ok := t.Underlying().(*types.Map)

	return ok
}

// rangeOverMap makes the iteration order of a map a seeded decision:
//
//	for k, v := range m { body }
//
// becomes
//
//	{ simP := m; for _, k := range simrt.MapKeys(site, simP) { v, ok := simP[k]; if !ok { continue }; body } }
//
// The map expression is evaluated once (as in Go), keys deleted during the iteration
// are skipped (as in Go), keys added during it are not produced (which Go permits).
func (rw *rewriter) rangeOverMap(n *ast.RangeStmt) ast.Stmt {
	site := rw.site(n, "maprange")
	m := rw.fresh("P")
	ok := rw.fresh("K")

	isBlank := func(e ast.Expr) bool {
		if e == nil {
			return true
		}

		id, isID := e.(*ast.Ident)

		return isID && id.Name == "_"
	}

	var (
		loopKey ast.Expr
		head    []ast.Stmt
	)

	assign := n.Tok == token.ASSIGN

	switch {
	case assign || isBlank(n.Key):
		loopKey = rw.fresh("Y")
	default:
		loopKey = n.Key
	}

	idx := &ast.IndexExpr{X: m, Index: loopKey}
	skip := &ast.IfStmt{
		Cond: &ast.UnaryExpr{Op: token.NOT, X: ok},
		Body: &ast.BlockStmt{List: []ast.Stmt{&ast.BranchStmt{Tok: token.CONTINUE}}},
	}

	switch {
	case isBlank(n.Value) || assign:
		vt := ast.Expr(ast.NewIdent("_"))
		if assign && !isBlank(n.Value) {
			vt = rw.fresh("W")
		}

		head = append(head, &ast.AssignStmt{Lhs: []ast.Expr{vt, ok}, Tok: token.DEFINE, Rhs: []ast.Expr{idx}}, skip)

		if assign && !isBlank(n.Key) {
			head = append(head, &ast.AssignStmt{Lhs: []ast.Expr{n.Key}, Tok: token.ASSIGN, Rhs: []ast.Expr{loopKey}})
		}

		if assign && !isBlank(n.Value) {
			head = append(head, &ast.AssignStmt{Lhs: []ast.Expr{n.Value}, Tok: token.ASSIGN, Rhs: []ast.Expr{vt}})
		}
	default:
		head = append(head, &ast.AssignStmt{Lhs: []ast.Expr{n.Value, ok}, Tok: token.DEFINE, Rhs: []ast.Expr{idx}}, skip)
	}

	mapExpr := n.X

	n.Key = ast.NewIdent("_")
	n.Value = loopKey
	n.Tok = token.DEFINE
	n.X = call("MapKeys", site, m)
	n.Body = &ast.BlockStmt{List: append(head, n.Body.List...)}

	blk := &ast.BlockStmt{List: []ast.Stmt{define(m, mapExpr), n}}
	rw.inner[blk] = n

	return blk
}

func (rw *rewriter) run() {
	astutil.Apply(rw.file, rw.pre, rw.post)
}

func (rw *rewriter) pre(c *astutil.Cursor) bool {
	sel, ok := c.Node().(*ast.SelectStmt)
	if !ok {
		return true
	}

	for _, cl := range sel.Body.List {
		cc := cl.(*ast.CommClause)

		switch comm := cc.Comm.(type) {
		case nil:
		case *ast.SendStmt:
			rw.skip[comm] = true
		case *ast.ExprStmt:
			rw.skip[unparen(comm.X)] = true
		case *ast.AssignStmt:
			rw.skip[unparen(comm.Rhs[0])] = true
			rw.skip[comm] = true
		}
	}

	return true
}

func (rw *rewriter) post(c *astutil.Cursor) bool {
	switch n := c.Node().(type) {
	case *ast.SendStmt:
		if rw.skip[n] {
			return true
		}

		c.Replace(&ast.ExprStmt{X: call("Send", rw.site(n, "send"), n.Chan, n.Value)})
	case *ast.UnaryExpr:
		if n.Op != token.ARROW || rw.skip[n] {
			return true
		}

		c.Replace(call("Recv", rw.site(n, "recv"), n.X))
	case *ast.AssignStmt:
		// v, ok := <-ch was turned into v, ok := simrt.Recv(...) above; make it Recv2
		if rw.skip[n] || len(n.Lhs) != 2 || len(n.Rhs) != 1 {
			return true
		}

		if ce, ok := unparen(n.Rhs[0]).(*ast.CallExpr); ok && isSimrtCall(ce, "Recv") {
			ce.Fun = simrtSel("Recv2")
		}
	case *ast.ValueSpec:
		if len(n.Names) == 2 && len(n.Values) == 1 {
			if ce, ok := unparen(n.Values[0]).(*ast.CallExpr); ok && isSimrtCall(ce, "Recv") {
				ce.Fun = simrtSel("Recv2")
			}
		}
	case *ast.RangeStmt:
		if rw.isChan(n.X) {
			c.Replace(rw.rangeOverChan(n))
		} else if rw.isMap(n.X) {
			c.Replace(rw.rangeOverMap(n))
		}
	case *ast.CallExpr:
		rw.callExpr(c, n)
	case *ast.GoStmt:
		c.Replace(rw.goStmt(n))
	case *ast.SelectStmt:
		blk := rw.selectStmt(n)
		rw.inner[blk] = n
		c.Replace(blk)
	case *ast.LabeledStmt:
		// a label must stay on the select / loop itself (break L, continue L), not on
		// the block we wrapped it in
		if blk, ok := n.Stmt.(*ast.BlockStmt); ok {
			if in := rw.inner[blk]; in != nil {
				for i, st := range blk.List {
					if st == in {
						blk.List[i] = &ast.LabeledStmt{Label: n.Label, Stmt: in}
					}
				}

				c.Replace(blk)
			}
		}
	}

	return true
}

func isSimrtCall(ce *ast.CallExpr, name string) bool {
	se, ok := ce.Fun.(*ast.SelectorExpr)
	if !ok {
		return false
	}

	x, ok := se.X.(*ast.Ident)

	return ok && x.Name == "simrt" && se.Sel.Name == name
}

func (rw *rewriter) rangeOverChan(n *ast.RangeStmt) ast.Stmt {
	site := rw.site(n, "range")
	ch := rw.fresh("R")
	ok := rw.fresh("K")

	var recv ast.Stmt

	rcall := call("Recv2", site, ch)

	if n.Value != nil {
		rw.refuse(n, "range over a channel with two iteration variables")
	}

	switch {
	case n.Key == nil:
		recv = &ast.AssignStmt{Lhs: []ast.Expr{ast.NewIdent("_"), ok}, Tok: token.DEFINE, Rhs: []ast.Expr{rcall}}
	case n.Tok == token.DEFINE:
		recv = &ast.AssignStmt{Lhs: []ast.Expr{n.Key, ok}, Tok: token.DEFINE, Rhs: []ast.Expr{rcall}}
	default:
		// for x = range ch
		decl := &ast.DeclStmt{Decl: &ast.GenDecl{Tok: token.VAR, Specs: []ast.Spec{
			&ast.ValueSpec{Names: []*ast.Ident{ok}, Type: ast.NewIdent("bool")},
		}}}
		asg := &ast.AssignStmt{Lhs: []ast.Expr{n.Key, ok}, Tok: token.ASSIGN, Rhs: []ast.Expr{rcall}}
		recv = &ast.BlockStmt{List: []ast.Stmt{decl, asg}}
	}

	var head []ast.Stmt

	if blk, isBlk := recv.(*ast.BlockStmt); isBlk {
		head = blk.List
	} else {
		head = []ast.Stmt{recv}
	}

	head = append(head, &ast.IfStmt{
		Cond: &ast.UnaryExpr{Op: token.NOT, X: ok},
		Body: &ast.BlockStmt{List: []ast.Stmt{&ast.BranchStmt{Tok: token.BREAK}}},
	})

	body := &ast.BlockStmt{List: append(head, n.Body.List...)}

	return &ast.ForStmt{Init: define(ch, n.X), Body: body}
}

func (rw *rewriter) funcObj(fun ast.Expr) *types.Func {
	switch f := unparen(fun).(type) {
	case *ast.Ident:
		fn, _ := rw.info.Uses[f].(*types.Func)
		return fn
	case *ast.SelectorExpr:
		fn, _ := rw.info.Uses[f.Sel].(*types.Func)
		return fn
	case *ast.IndexExpr:
		return rw.funcObj(f.X)
	case *ast.IndexListExpr:
		return rw.funcObj(f.X)
	}

	return nil
}

func recvTypeName(fn *types.Func) string {
	sig, ok := fn.Type().(*types.Signature)
	if !ok || sig.Recv() == nil {
		return ""
	}

	t := sig.Recv().Type()
	if p, ok := t.(*types.Pointer); ok {
		t = p.Elem()
	}

	if nt, ok := t.(*types.Named); ok && nt.Obj().Pkg() != nil {
		return nt.Obj().Pkg().Path() + "." + nt.Obj().Name()
	}

	return ""
}

func (rw *rewriter) callExpr(c *astutil.Cursor, n *ast.CallExpr) {
	// builtin close
	if id, ok := unparen(n.Fun).(*ast.Ident); ok && id.Name == "close" {
		if _, isBuiltin := rw.info.Uses[id].(*types.Builtin); isBuiltin {
			site := rw.site(n, "close")
			n.Fun = simrtSel("Close")
			n.Args = append([]ast.Expr{site}, n.Args...)

			return
		}
	}

	fn := rw.funcObj(n.Fun)
	if fn == nil || fn.Pkg() == nil {
		return
	}

	pkg, name, recv := fn.Pkg().Path(), fn.Name(), recvTypeName(fn)

	if recv == "" {
		switch pkg + "." + name {
		case "time.Sleep":
			site := rw.site(n, "sleep")
			n.Fun = simrtSel("Sleep")
			n.Args = append([]ast.Expr{site}, n.Args...)
		case "runtime.Gosched":
			site := rw.site(n, "yield")
			n.Fun = simrtSel("Yield")
			n.Args = []ast.Expr{site}
		case "time.Now":
			// a clock reading: a point at which simulated time may be made to pass (stall
			// points); otherwise exactly time.Now()
			site := rw.site(n, "clock")
			n.Fun = simrtSel("TimeNow")
			n.Args = []ast.Expr{site}
		case "time.Since":
			site := rw.site(n, "clock")
			n.Fun = simrtSel("TimeSince")
			n.Args = append([]ast.Expr{site}, n.Args...)
		case "time.AfterFunc", "context.AfterFunc":
			rw.refuse(n, pkg+"."+name+" runs code outside the simulator's control")
		}

		return
	}

	se, ok := unparen(n.Fun).(*ast.SelectorExpr)
	if !ok {
		return
	}

	recvExpr := se.X
	if _, isPtr := rw.info.TypeOf(recvExpr).Underlying().(*types.Pointer); !isPtr {
		recvExpr = &ast.UnaryExpr{Op: token.AND, X: recvExpr}
	}

	switch recv + "." + name {
	case "sync.WaitGroup.Wait":
		site := rw.site(n, "wgwait")
		n.Fun = simrtSel("WaitGroupWait")
		n.Args = []ast.Expr{site, recvExpr}
	case "sync.Mutex.Lock", "sync.RWMutex.Lock":
		site := rw.site(n, "lock")
		n.Fun = simrtSel("Lock")
		n.Args = []ast.Expr{site, recvExpr}
	case "sync.RWMutex.RLock", "sync.Cond.Wait", "sync.WaitGroup.Go":
		rw.refuse(n, recv+"."+name)
	}
}

func (rw *rewriter) goStmt(n *ast.GoStmt) ast.Stmt {
	site := rw.site(n, "go")

	var pre []ast.Stmt

	callee := n.Call.Fun

	hoistFun := true

	if fn := rw.funcObj(callee); fn != nil && recvTypeName(fn) == "" {
		if sig, ok := fn.Type().(*types.Signature); ok && sig.Recv() == nil {
			hoistFun = false // package-level function: nothing to evaluate
		}
	}

	if hoistFun {
		f := rw.fresh("F")
		pre = append(pre, define(f, callee))
		callee = f
	}

	args := make([]ast.Expr, len(n.Call.Args))

	for i, a := range n.Call.Args {
		if rw.isConst(a) {
			args[i] = a
			continue
		}

		if tv, ok := rw.info.Types[a]; ok {
			if _, isTuple := tv.Type.(*types.Tuple); isTuple {
				rw.refuse(n, "go statement with a multi-value argument")
			}
		}

		t := rw.fresh("A")
		pre = append(pre, define(t, a))
		args[i] = t
	}

	inner := &ast.CallExpr{Fun: callee, Args: args, Ellipsis: n.Call.Ellipsis}
	lit := &ast.FuncLit{
		Type: &ast.FuncType{Params: &ast.FieldList{}},
		Body: &ast.BlockStmt{List: []ast.Stmt{&ast.ExprStmt{X: inner}}},
	}

	pre = append(pre, &ast.ExprStmt{X: call("Go", site, lit)})

	return &ast.BlockStmt{List: pre}
}

func (rw *rewriter) selectStmt(n *ast.SelectStmt) *ast.BlockStmt {
	site := rw.site(n, "select")
	m := rw.fresh("M")

	var (
		pre        []ast.Stmt
		cases      []ast.Expr
		hasDefault bool
		idx        int
	)

	if len(n.Body.List) == 0 {
		rw.refuse(n, "select without cases")
	}

	for _, cl := range n.Body.List {
		cc := cl.(*ast.CommClause)

		if cc.Comm == nil {
			hasDefault = true
			continue
		}

		i := &ast.BasicLit{Kind: token.INT, Value: strconv.Itoa(idx)}
		idx++

		switch comm := cc.Comm.(type) {
		case *ast.SendStmt:
			ch := rw.fresh("C")
			pre = append(pre, define(ch, comm.Chan))

			val := comm.Value
			if !rw.isConst(val) {
				v := rw.fresh("V")
				pre = append(pre, define(v, val))
				val = v
			}

			cases = append(cases, call("SendCase", ch, val))
			comm.Chan = call("SendPick", m, i, ch)
			comm.Value = val
		case *ast.ExprStmt:
			ue, ok := unparen(comm.X).(*ast.UnaryExpr)
			if !ok || ue.Op != token.ARROW {
				rw.refuse(comm, "unexpected select communication")
			}

			ch := rw.fresh("C")
			pre = append(pre, define(ch, ue.X))
			cases = append(cases, call("RecvCase", ch))
			ue.X = call("RecvPick", m, i, ch)
		case *ast.AssignStmt:
			ue, ok := unparen(comm.Rhs[0]).(*ast.UnaryExpr)
			if !ok || ue.Op != token.ARROW {
				rw.refuse(comm, "unexpected select communication")
			}

			ch := rw.fresh("C")
			pre = append(pre, define(ch, ue.X))
			cases = append(cases, call("RecvCase", ch))
			ue.X = call("RecvPick", m, i, ch)
		default:
			rw.refuse(cc, "unexpected select communication")
		}
	}

	def := "false"
	if hasDefault {
		def = "true"
	}

	args := append([]ast.Expr{site, ast.NewIdent(def)}, cases...)
	pre = append(pre, define(m, call("Select", args...)))
	pre = append(pre, n)

	return &ast.BlockStmt{List: pre}
}
