package harness

import (
	"context"
	"errors"
	"fmt"
	"math"
	"sort"
	"time"

	"verif/simrt"

	prio1 "github.com/akramarenkov/cqos/priority"
	prio2 "github.com/akramarenkov/cqos/v2/priority"
	div2 "github.com/akramarenkov/cqos/v2/priority/divider"
	simple2 "github.com/akramarenkov/cqos/v2/priority/simple"
	types2 "github.com/akramarenkov/cqos/v2/priority/types"
)

// PrioSc is a scenario of the prio2 / simple2 / prio1 / simple1 engines.
type PrioSc struct {
	Engine   string     `json:"engine"`
	Class    string     `json:"class"` // normal | saturate | single | withhold | fault | createfault | stop | dynamic
	H        int        `json:"h"`
	Divider  string     `json:"divider"` // fair | rate | custom
	Inputs   []PInput   `json:"inputs"`
	Handlers []PHandler `json:"handlers"`
	OutCap   int        `json:"out_cap"` // v1 plain: user-owned output channel
	FbCap    int        `json:"fb_cap"`  // v1 plain: user-owned feedback channel
	Ctl      []PAction  `json:"controller"`
	Fault    *PFault    `json:"fault,omitempty"`
	// Dispatch (plain engines): one reader takes every item off the output at once and
	// an actor per item releases it later, so releases come in any order relative to
	// receipt (Handlers[k mod len] is the behaviour for the k-th item).
	Dispatch bool `json:"dispatch,omitempty"`
	// ReuseMap: the caller clears and reuses the map it passed as Inputs once the
	// constructor has returned (the discipline must have taken what it needs).
	ReuseMap bool `json:"reuse_map,omitempty"`
	// BadOpt (C19): one option is invalid, the rest valid, so that the constructor must
	// fail - and leave nothing running: "nil-handle", "nil-divider", "zero-h",
	// "nil-output", "nil-feedback".
	BadOpt string `json:"bad_opt,omitempty"`
	// Linger (v1 Simple): a Handle call whose context was cancelled needs this many more ns
	// to return (it honours its context, in bounded time - not in zero time).
	Linger int64 `json:"linger,omitempty"`
	// LateErr (prio2): the user looks at Err() only once the output channel was seen
	// closed ("you don't have to read from this channel" while the divider is trusted).
	LateErr bool `json:"late_err,omitempty"`
	// LateSilent (dynamic class): every initial input is buffered, input 0 trickles for a
	// long time, and an unbuffered channel that then stays silent for thousands of idle
	// rounds is added on the fly; a mark in the middle of the silence asks whether the other
	// inputs are still being served.
	LateSilent bool `json:"late_silent,omitempty"`
	// ReuseKeys: what the caller leaves in the reused map: 0 = a foreign key only,
	// 1 = nothing, 2 = all but one of the original keys, 3 = the original keys plus a foreign one.
	ReuseKeys int `json:"reuse_keys,omitempty"`
	// Unit is the measured idle period of the discipline (simulated ns per idle round, 1
	// for the shipped constants); every pause of the scenario was multiplied by it.
	Unit    int64 `json:"unit"`
	Horizon int64 `json:"horizon"`
}

// PInput is one input channel and its producer.
type PInput struct {
	Prio    uint    `json:"prio"`
	Cap     int     `json:"cap"`
	Prefill int     `json:"prefill"`
	Bursts  []Burst `json:"bursts"`
	Close   bool    `json:"close"` // the producer closes the channel at the end of its script
	Late    bool    `json:"late"`  // v1: not passed to New, registered later by an "add" action
	// Thief (C02): a second reader of this input channel - another discipline or a worker
	// the channel is shared with - takes up to this many items, pausing ThiefDelay ns after each.
	// Writers (saturate class): instead of a large prefilled buffer the input has a small
	// capacity and this many producers that are blocked writing to it before the discipline
	// is created and write Total items between them: the channel stays full.
	Writers    int   `json:"writers,omitempty"`
	Total      int   `json:"total,omitempty"`
	Thief      int   `json:"thief,omitempty"`
	ThiefDelay int64 `json:"thief_delay,omitempty"`
}

// PHandler is the behaviour of one handler (plain engines) or of every k-th Handle
// call (simple engines).
type PHandler struct {
	Delays []int64 `json:"delays"` // processing time per item, cycled
	Manual bool    `json:"manual"` // keeps every item until the controller resumes it
	// Quit (plain engines): after this many items the handler releases what it has and
	// stops reading the output for good (0: never) - "consumer not reading".
	Quit int `json:"quit,omitempty"`
}

// PAction is one step of the controller's script.
type PAction struct {
	WaitNs    int64  `json:"wait_ns,omitempty"`
	WaitSteps int64  `json:"wait_steps,omitempty"`
	Kind      string `json:"kind"` // resume | mark | stop | cancel | graceful | add | remove | closein | autoall | closeall
	A         int    `json:"a,omitempty"`
	List      []int  `json:"list,omitempty"`
}

// PFault makes the divider misbehave at one of its round-division calls.
type PFault struct {
	Call  int `json:"call"`  // index among the calls made by the running discipline (0 = first); -1: the call made by New
	Delta int `json:"delta"` // added to (or, negative, removed from) the division's result
}

func (sc *PrioSc) class() string { return sc.Class }

func (sc *PrioSc) plain() bool { return sc.Engine == "prio1" || sc.Engine == "prio2" }
func (sc *PrioSc) v1() bool    { return sc.Engine == "prio1" || sc.Engine == "simple1" }

const (
	varAuto = iota // manual handlers stop holding items
	varHandleCalls
	varDivCalls
	varRunning      // running Handle calls
	varOutSeen = 40 // handlers that saw the output closed
	varWritten = 44 // +input index: items handed to the writers of that input (up to 8 inputs)
	varSink    = 63
)

type pitem struct {
	item int
	prio uint
}

func init() {
	simrt.Describe = func(v any) (int64, int64, []int, bool) {
		switch x := v.(type) {
		case types2.Prioritized[int]:
			return int64(x.Item), int64(x.Priority), nil, true
		case prio1.Prioritized[int]:
			return int64(x.Item), int64(x.Priority), nil, true
		}

		return 0, 0, nil, false
	}

	for _, name := range []string{"prio2", "simple2", "prio1", "simple1"} {
		name := name
		register(&Engine{
			Name:   name,
			Gen:    func(prop string, r *simrt.SplitMix) any { return genPrio(name, prop, r) },
			Decode: decodeAs[PrioSc],
			Build:  func(sc any) (simrt.Config, func()) { return buildPrio(sc.(*PrioSc)) },
			Check:  func(prop string, sc any, res *simrt.Result) Verdict { return checkPrio(prop, sc.(*PrioSc), res) },
			Shrink: func(sc any) []any { return shrinkPrio(sc.(*PrioSc)) },
		})
	}
}

// ---------------------------------------------------------------------------------
// dividers

func customDivide(priorities []uint, dividend uint, distribution map[uint]uint) {
	// sum-preserving: one unit each from the highest priority down, everything that
	// is left to the lowest priority
	if len(priorities) == 0 {
		return
	}

	left := dividend

	for _, p := range priorities {
		// like the built-in dividers, always create the entry, also for a zero share
		// (the constructor judges a configuration by the entries it finds)
		if left == 0 {
			distribution[p] += 0
			continue
		}

		distribution[p]++
		left--
	}

	distribution[priorities[len(priorities)-1]] += left
}

func baseDivider(name string) div2.Divider {
	switch name {
	case "fair":
		return div2.Fair
	case "rate":
		return div2.Rate
	default:
		return customDivide
	}
}

func baseDividerV1(name string) prio1.Divider {
	switch name {
	case "fair":
		return prio1.FairDivider
	case "rate":
		return prio1.RateDivider
	default:
		return func(priorities []uint, dividend uint, distribution map[uint]uint) map[uint]uint {
			if len(priorities) == 0 {
				return nil
			}

			if distribution == nil {
				distribution = make(map[uint]uint, len(priorities))
			}

			customDivide(priorities, dividend, distribution)

			return distribution
		}
	}
}

// share is the reference distribution of C05: the configured divider applied to all
// priorities sorted from highest to lowest and H.
func (sc *PrioSc) share() map[uint]uint {
	var ps []uint
	for _, in := range sc.Inputs {
		if !in.Late {
			ps = append(ps, in.Prio)
		}
	}

	sort.Slice(ps, func(i, j int) bool { return ps[i] > ps[j] })

	d := map[uint]uint{}
	baseDivider(sc.Divider)(ps, uint(sc.H), d)

	return d
}

// corrupt applies the fault to a division's result and reports whether the result
// now violates the sum rule in a way the discipline must notice (total added != dividend
// and resulting total != 0).
func corrupt(priorities []uint, distribution map[uint]uint, delta int) bool {
	if len(priorities) == 0 || distribution == nil {
		return false
	}

	if delta < 0 {
		total := uint(0)
		for _, q := range distribution {
			total += q
		}

		for _, p := range priorities {
			if distribution[p] >= uint(-delta) && total > uint(-delta) {
				distribution[p] -= uint(-delta)
				return true
			}
		}

		delta = -delta // nothing to take away: over-allocate instead
	}

	distribution[priorities[len(priorities)-1]] += uint(delta)

	return true
}

// ---------------------------------------------------------------------------------
// generation

var prioSets = [][]uint{
	{1}, {5}, {2, 1}, {3, 1}, {100, 1}, {3, 2, 1}, {70, 20, 10}, {4, 3, 2, 1}, {1000, 999, 7}, {10, 9}, {5, 5000},
	{1 << 40, 1 << 20, 3}, {7, 6, 5, 4, 3}, {2, 3}, {9, 1, 5},
	// the whole uint range is legal: values in its upper half, and zero
	{math.MaxUint, 2, 1}, {1 << 63, 1<<63 - 1, 5}, {1<<63 + 7, 3}, {3, 0}, {math.MaxUint, math.MaxUint - 1},
}

// acceptable asks the real v2 constructor (in a throw-away simulated run).
var acceptCache = map[string]bool{}

func acceptable(divider string, prios []uint, h int) bool {
	key := fmt.Sprint(divider, prios, h)
	if v, ok := acceptCache[key]; ok {
		return v
	}

	ok := false

	runBubble(func() {
		simrt.Run(simrt.Config{MaxSteps: 10_000, Horizon: time.Second}, simrt.NewChoices(1, simrt.Policy{}), func() {
			inputs := map[uint]<-chan int{}

			for _, p := range prios {
				c := make(chan int)
				close(c)
				inputs[p] = c
			}

			dsc, err := prio2.New(prio2.Opts[int]{Divider: baseDivider(divider), HandlersQuantity: uint(h), Inputs: inputs})
			if err != nil {
				return
			}

			ok = true

			for {
				if _, open := simrt.Recv2("env:accept", dsc.Output()); !open {
					break
				}
			}
		})
	})

	acceptCache[key] = ok

	return ok
}

func genPrio(engine, prop string, r *simrt.SplitMix) *PrioSc {
	sc := &PrioSc{Engine: engine, Class: "normal"}
	v1 := sc.v1()

	switch prop {
	case "C05":
		sc.Class = "saturate"
	case "C06":
		sc.Class = pick(r, "normal", "normal", "single", "sparse")
		if engine == "prio1" && r.Intn(4) == 0 {
			sc.Class = "dynamic"
		}
	case "C07":
		sc.Class = pick(r, "normal", "withhold", "withhold")
		if engine == "prio1" && r.Intn(3) == 0 {
			sc.Class = "dynamic"
		}

		if engine == "simple1" && r.Intn(4) == 0 {
			sc.Class = "stop" // a rough stop overlapping a pending GracefulStop
		}
	case "C02":
		if engine == "prio1" && r.Intn(3) == 0 {
			sc.Class = "dynamic"
		}
	case "C15":
		sc.Class = pick(r, "fault", "fault", "fault", "normal", "createfault")
		if engine != "prio2" && sc.Class == "createfault" {
			sc.Class = "fault"
		}
	case "C16":
		sc.Class = "stop"
	case "C17":
		sc.Class = "dynamic"
	case "C19", "C20":
		if v1 {
			sc.Class = pick(r, "normal", "stop", "stop", "fault", "dynamic", "withhold", "saturate")
			if engine == "simple1" && (sc.Class == "dynamic" || sc.Class == "saturate") {
				sc.Class = "normal"
			}
		} else {
			sc.Class = pick(r, "normal", "normal", "fault", "withhold", "saturate")
			if engine == "simple2" && sc.Class == "saturate" {
				sc.Class = "normal"
			}
		}
	case "C01":
		if engine == "prio1" {
			sc.Class = pick(r, "normal", "dynamic", "saturate")
		} else if engine == "prio2" {
			sc.Class = pick(r, "normal", "saturate")
		}
	}

	// priorities, H, divider accepted by the real v2 constructor
	var prios []uint

	for try := 0; ; try++ {
		prios = append([]uint(nil), prioSets[r.Intn(len(prioSets))]...)

		randomSet := r.Intn(3) == 0
		manyInputs := false

		if randomSet {
			// a random set of close values: with Rate and a small H the full set may get a
			// handler each while some subset does not (accepted by the constructor, "fatal"
			// by the utils' definition)
			n := between(r, 2, 5)
			span := 12

			// thorough tier only (the guard comes first, so the quick tier draws exactly what it
			// drew before): now and then more inputs than a machine word has bits, or than a
			// small fixed table has slots - per-input state kept in bitmaps or fixed arrays
			manyInputs = scale > 1 && (prop == "C02" || prop == "C01") && !v1 && r.Intn(12) == 0
			if manyInputs {
				n = pick(r, 33, 65, 66, 70, 129)
				span = 4 * n
			}

			seen := map[uint]bool{}
			prios = prios[:0]

			for len(prios) < n {
				p := uint(between(r, 1, span))
				if !seen[p] {
					seen[p] = true
					prios = append(prios, p)
				}
			}
		}
		sc.Divider = pick(r, "fair", "rate", "rate", "custom")
		if manyInputs {
			sc.Divider = "fair"
		}

		n := len(prios)
		sc.H = pick(r, n, n, n+1, n+2, 2*n, 2*n+1, 6, 7, 11, between(r, n, n+10*scale))

		if sc.H < n {
			sc.H = n
		}

		if r.Intn(40) == 0 {
			// many handlers: the disciplines size their output/feedback buffers and the
			// feedback batch as HandlersQuantity/10 once that exceeds the number of inputs
			sc.H = pick(r, 40, 64, 100, 257)
		}

		if sc.Class == "createfault" {
			break
		}

		if randomSet && r.Intn(2) == 0 {
			// the smallest quantity the constructor accepts for this set: with Rate the full
			// set then typically gets one handler each while subsets do not divide evenly
			for hq := n; hq < n+24; hq++ {
				if acceptable(sc.Divider, prios, hq) {
					sc.H = hq
					break
				}
			}
		}

		if acceptable(sc.Divider, prios, sc.H) {
			break
		}

		if try > 30 {
			sc.Divider = "fair"
			break
		}
	}

	// C01 is a pure safety bound: on v1, whose constructors accept any non-zero quantity,
	// it must also hold with fewer handlers than priorities (low priorities then starve,
	// which the library documents; the run simply ends at its horizon)
	if prop == "C01" && v1 && sc.Class == "normal" && len(prios) > 1 && r.Intn(6) == 0 {
		sc.H = between(r, 1, len(prios)-1)
	}

	// v2 constructors must reject a quantity below the number of priorities (and zero); a
	// constructor that accepts it anyway is held to the quantity it was given
	if prop == "C01" && !v1 && sc.Class == "normal" && r.Intn(8) == 0 {
		sc.H = between(r, 0, len(prios)-1)
	}

	// shuffle so that input order is not priority order
	for i := len(prios) - 1; i > 0; i-- {
		j := r.Intn(i + 1)
		prios[i], prios[j] = prios[j], prios[i]
	}

	h := sc.H
	delays := []int64{0, 0, 0, 1, 2, 5, 17}

	mkBursts := func(total int) []Burst {
		var bs []Burst

		for total > 0 {
			b := Burst{Delay: pick(r, delays...), N: between(r, 1, 6)}
			if b.N > total {
				b.N = total
			}

			total -= b.N
			bs = append(bs, b)
		}

		return bs
	}

	autoHandlers := func() {
		n := h
		if !sc.plain() {
			n = between(r, 1, 3)
		}

		for i := 0; i < n; i++ {
			hd := PHandler{}
			for k := between(r, 1, 3); k > 0; k-- {
				hd.Delays = append(hd.Delays, pick(r, delays...))
			}

			sc.Handlers = append(sc.Handlers, hd)
		}
	}

	manualHandlers := func() {
		n := h
		if !sc.plain() {
			n = 1
		}

		for i := 0; i < n; i++ {
			sc.Handlers = append(sc.Handlers, PHandler{Manual: true})
		}
	}

	if v1 && sc.plain() {
		sc.OutCap = pick(r, 0, 0, 1, 3, h)
		sc.FbCap = pick(r, 0, 0, 1, h, 2*h)
	}

	wait := func() (ns, steps int64) {
		if r.Intn(2) == 0 {
			return int64(pick(r, 0, 1, 3, 10, 30, 80)), 0
		}

		return 0, int64(between(r, 1, 400))
	}

	switch sc.Class {
	case "normal", "withhold", "fault", "createfault":
		for _, p := range prios {
			in := PInput{Prio: p, Cap: pick(r, 0, 0, 1, 2, 5, 16), Close: true}
			total := pick(r, 0, 1, 3, between(r, 0, 25*scale), between(r, 0, 25*scale))

			if in.Cap > 0 && r.Intn(3) == 0 {
				in.Prefill = min(in.Cap, total)
				total -= in.Prefill
			}

			in.Bursts = mkBursts(total)
			sc.Inputs = append(sc.Inputs, in)
		}

		autoHandlers()

		if sc.Class == "withhold" {
			if r.Intn(2) == 0 && sc.plain() {
				// one handler keeps its item for a long time
				k := r.Intn(len(sc.Handlers))
				sc.Handlers[k] = PHandler{Manual: true}
				sc.Ctl = append(sc.Ctl, PAction{WaitNs: int64(pick(r, 200, 500, 1000)), Kind: "mark", A: 1}, PAction{Kind: "autoall"})
			} else {
				// one input stays open and idle for a long time
				k := r.Intn(len(sc.Inputs))
				sc.Inputs[k].Close = false
				sc.Ctl = append(sc.Ctl, PAction{WaitNs: int64(pick(r, 200, 500, 1000)), Kind: "mark", A: 1}, PAction{Kind: "closein", A: k})
			}
		}

		if sc.Class == "fault" {
			sc.Fault = &PFault{Call: between(r, 0, 60), Delta: pick(r, 1, 1, 2, 5, -1, -1, -2)}
			if r.Intn(4) == 0 {
				sc.Fault.Call = between(r, 0, 6)
			}
		}

		if sc.Class == "createfault" {
			sc.Fault = &PFault{Call: -1, Delta: pick(r, 1, 3, -1)}
			if r.Intn(2) == 0 {
				// a configuration the constructor must reject: some share is zero
				sc.Fault = nil
				sc.Divider = "fair"
				sc.H = max(1, len(prios)-1-r.Intn(2))

				if len(prios) == 1 {
					prios = []uint{2, 1}
					sc.Inputs = append(sc.Inputs, PInput{Prio: 2, Close: true})
					sc.Inputs[0].Prio = 1
					sc.H = 1
				}

				if r.Intn(2) == 0 {
					// ... under Rate, where the zero share comes from rounding: search a set of
					// close priorities and a quantity for which the public divider leaves some
					// priority with nothing (an entry of 0 or no entry at all)
					for try := 0; try < 200; try++ {
						n := between(r, 2, 5)
						seen := map[uint]bool{}

						var ps []uint

						for len(ps) < n {
							p := uint(between(r, 1, 12))
							if !seen[p] {
								seen[p] = true
								ps = append(ps, p)
							}
						}

						hq := between(r, n, 3*n)

						sorted := append([]uint(nil), ps...)
						sort.Slice(sorted, func(i, j int) bool { return sorted[i] > sorted[j] })

						d := map[uint]uint{}
						baseDivider("rate")(sorted, uint(hq), d)

						zero := false
						for _, p := range ps {
							if d[p] == 0 {
								zero = true
							}
						}

						if zero {
							sc.Divider, sc.H = "rate", hq
							sc.Inputs = sc.Inputs[:0]

							for _, p := range ps {
								sc.Inputs = append(sc.Inputs, PInput{Prio: p, Close: true})
							}

							break
						}
					}
				}
			}
		}

		if v1 {
			ns, steps := wait()
			if r.Intn(3) == 0 {
				ns, steps = int64(pick(r, 300, 1000)), 0
			}

			sc.Ctl = append(sc.Ctl, PAction{WaitNs: ns, WaitSteps: steps, Kind: "graceful"})
		}
	case "sparse":
		// exactly one priority ever has data, and it trickles in one item at a time while
		// nothing is released: it must still come to hold all H handlers
		gap := int64(pick(r, 1, 2, 3, 10, 40))

		for i, p := range prios {
			in := PInput{Prio: p, Cap: pick(r, 0, 0, 1, 4)}

			if i == 0 {
				n := h + between(r, 1, 4)
				first := between(r, 0, min(n, in.Cap))
				in.Prefill = first

				for k := first; k < n; k++ {
					in.Bursts = append(in.Bursts, Burst{Delay: gap, N: 1})
				}
			}

			sc.Inputs = append(sc.Inputs, in)
		}

		manualHandlers()

		earlyGraceful := v1 && r.Intn(3) == 0
		if earlyGraceful {
			sc.Ctl = append(sc.Ctl, PAction{WaitNs: int64(pick(r, 0, 0, 3, 30)), Kind: "graceful"})
		}

		sc.Ctl = append(sc.Ctl,
			PAction{WaitNs: int64(h+6)*gap + int64(100+10*h), Kind: "mark", A: 0},
			PAction{Kind: "autoall"}, PAction{Kind: "closeall"})

		if v1 && !earlyGraceful {
			sc.Ctl = append(sc.Ctl, PAction{Kind: "graceful"})
		}
	case "saturate", "single":
		rounds := between(r, 2, 6*scale)

		smallCap := sc.Class == "saturate" && prop == "C05" && r.Intn(4) == 0

		for i, p := range prios {
			n := h * (rounds + 3)
			in := PInput{Prio: p, Cap: n, Prefill: n}

			if smallCap {
				c := pick(r, 1, 1, 2, 3)
				in = PInput{Prio: p, Cap: c, Prefill: c, Writers: h + 2, Total: n}
			}

			if sc.Class == "single" && i != 0 {
				in = PInput{Prio: p, Cap: pick(r, 0, 1, 4)}
			}

			sc.Inputs = append(sc.Inputs, in)
		}

		manualHandlers()

		settle := int64(60 + 6*h)

		// v1: GracefulStop may be called at any time, also long before the inputs are closed;
		// until they are, nothing about the distribution may change
		earlyGraceful := v1 && r.Intn(3) == 0
		if earlyGraceful {
			sc.Ctl = append(sc.Ctl, PAction{WaitNs: int64(pick(r, 0, 0, 3, 30)), Kind: "graceful"})
		}

		sc.Ctl = append(sc.Ctl, PAction{WaitNs: settle, Kind: "mark", A: 0})

		if sc.Class == "saturate" {
			for k := 0; k < rounds; k++ {
				// release a group of handlers in some order, then let things settle
				perm := make([]int, h)
				for i := range perm {
					perm[i] = i
				}

				for i := h - 1; i > 0; i-- {
					j := r.Intn(i + 1)
					perm[i], perm[j] = perm[j], perm[i]
				}

				g := perm[:between(r, 1, h)]

				sc.Ctl = append(sc.Ctl, PAction{Kind: "resume", List: append([]int(nil), g...), WaitNs: int64(pick(r, 0, 0, 1, 7))})
				sc.Ctl = append(sc.Ctl, PAction{WaitNs: settle, Kind: "mark", A: k + 1})
			}
		}

		sc.Ctl = append(sc.Ctl, PAction{Kind: "autoall"}, PAction{Kind: "closeall"})

		if v1 && !earlyGraceful {
			sc.Ctl = append(sc.Ctl, PAction{Kind: "graceful"})
		}
	case "stop":
		for _, p := range prios {
			in := PInput{Prio: p, Cap: pick(r, 0, 0, 1, 4, 16), Close: r.Intn(2) == 0}
			total := pick(r, 0, 2, between(r, 0, 30*scale), between(r, h, 3*h))

			if in.Cap > 0 && r.Intn(2) == 0 {
				in.Prefill = min(in.Cap, total)
				total -= in.Prefill
			}

			in.Bursts = mkBursts(total)
			sc.Inputs = append(sc.Inputs, in)
		}

		switch r.Intn(3) {
		case 0:
			autoHandlers()
		case 1:
			manualHandlers() // everything that is handed out stays in flight
		default:
			autoHandlers()

			for i := range sc.Handlers {
				if r.Intn(2) == 0 {
					sc.Handlers[i] = PHandler{Manual: true}
				}
			}
		}

		if sc.plain() && r.Intn(3) == 0 {
			// the consumer side stops reading while handlers are still free: the
			// discipline ends up blocked writing to the output
			for i := range sc.Handlers {
				sc.Handlers[i].Manual = false
				sc.Handlers[i].Quit = between(r, 0, 2)

				if i == 0 {
					sc.Handlers[i].Quit = 1
				}
			}
		}

		if r.Intn(3) == 0 || prop == "C07" {
			ns, steps := wait()
			sc.Ctl = append(sc.Ctl, PAction{WaitNs: ns, WaitSteps: steps, Kind: "graceful"})
		}

		ns, steps := wait()
		sc.Ctl = append(sc.Ctl, PAction{WaitNs: ns, WaitSteps: steps, Kind: pick(r, "stop", "stop", "cancel")})

		if sc.Ctl[len(sc.Ctl)-1].Kind == "cancel" && r.Intn(2) == 0 {
			sc.Ctl = append(sc.Ctl, PAction{WaitNs: int64(r.Intn(3)), Kind: "stop"})
		}
	case "dynamic":
		// initial inputs plus channels that are added, replaced, removed, re-added
		for _, p := range prios {
			in := PInput{Prio: p, Cap: pick(r, 0, 1, 4, 16), Close: true}
			in.Bursts = mkBursts(between(r, 0, 20*scale))
			sc.Inputs = append(sc.Inputs, in)
		}

		nInit := len(sc.Inputs)

		if r.Intn(5) == 0 {
			// v1 accepts an empty Inputs map: everything is registered through AddInput
			for i := range sc.Inputs {
				sc.Inputs[i].Late = true
			}

			nInit = 0
		}

		extra := between(r, 1, 4*scale)
		for k := 0; k < extra; k++ {
			var p uint

			switch r.Intn(3) {
			case 0: // replace the channel of an existing priority
				p = prios[r.Intn(len(prios))]
			default: // a new priority (or a re-add after removal)
				p = uint(pick(r, 6, 8, 50, 2000))
			}

			in := PInput{Prio: p, Cap: pick(r, 0, 1, 4, 16), Close: true, Late: true}
			in.Bursts = mkBursts(between(r, 0, 15))
			sc.Inputs = append(sc.Inputs, in)
		}

		for k := nInit; k < len(sc.Inputs); k++ {
			ns, steps := wait()
			sc.Ctl = append(sc.Ctl, PAction{WaitNs: ns, WaitSteps: steps, Kind: "add", A: k})

			if r.Intn(2) == 0 {
				ns, steps := wait()
				sc.Ctl = append(sc.Ctl, PAction{WaitNs: ns, WaitSteps: steps, Kind: "remove", A: r.Intn(k + 1)})
			}
		}

		earlyGraceful := false

		if (prop == "C17" || prop == "C02" || prop == "C07") && r.Intn(4) == 0 {
			// GracefulStop is requested early, by a party of its own, and stays pending while
			// the controller goes on adding and removing inputs; an idle input that is closed
			// only at the very end keeps the discipline from terminating under the script
			earlyGraceful = true

			sc.Inputs = append(sc.Inputs, PInput{Prio: 3001, Cap: pick(r, 0, 1)})

			at := r.Intn(len(sc.Ctl) + 1)
			ns, steps := wait()
			g := PAction{WaitNs: ns, WaitSteps: steps, Kind: "graceful"}
			sc.Ctl = append(sc.Ctl[:at], append([]PAction{g}, sc.Ctl[at:]...)...)
		}

		if prop == "C06" && r.Intn(3) == 0 {
			sc.LateSilent = true
			sc.Inputs, sc.Ctl = sc.Inputs[:0], sc.Ctl[:0]

			for i, p := range prios {
				in := PInput{Prio: p, Cap: pick(r, 1, 2, 4, 16), Close: true}

				if i == 0 {
					for k := 0; k < 70; k++ {
						in.Bursts = append(in.Bursts, Burst{Delay: 50, N: 1})
					}
				} else {
					in.Bursts = mkBursts(between(r, 0, 10))
				}

				sc.Inputs = append(sc.Inputs, in)
			}

			late := PInput{Prio: uint(pick(r, 6, 8, 50, 2000)), Cap: 0, Close: true, Late: true, Bursts: []Burst{{Delay: 2600, N: 1}}}
			if r.Intn(3) == 0 {
				late.Prio = prios[len(prios)-1] // replaces the channel of a configured priority
			}

			sc.Inputs = append(sc.Inputs, late)

			sc.Ctl = append(sc.Ctl,
				PAction{WaitNs: int64(pick(r, 100, 300, 700)), Kind: "add", A: len(sc.Inputs) - 1},
				PAction{WaitNs: 1500, Kind: "mark", A: 0})
		}

		// every set of priorities the discipline passes through must be one the
		// constructor would accept with this H (v1 has no check of its own; with too few
		// handlers it documents that zero-share priorities stop being processed)
		for ; h < sc.H+60 && !dynamicAcceptable(sc, h); h++ {
		}

		sc.H = h

		autoHandlers()

		if sc.LateSilent {
			for i := range sc.Handlers {
				sc.Handlers[i].Delays = []int64{int64(pick(r, 0, 1, 2, 5))}
			}
		}

		ns, steps := wait()

		if earlyGraceful {
			sc.Ctl = append(sc.Ctl, PAction{WaitNs: ns, WaitSteps: steps, Kind: "closein", A: len(sc.Inputs) - 1})
		} else {
			sc.Ctl = append(sc.Ctl, PAction{WaitNs: ns, WaitSteps: steps, Kind: "graceful"})
		}
	}

	if sc.plain() && (sc.Class == "normal" || sc.Class == "fault" || sc.Class == "dynamic" || sc.Class == "stop") && (r.Intn(4) == 0 || sc.H >= 40) {
		sc.Dispatch = true
	}

	if prop == "C19" && r.Intn(12) == 0 {
		switch engine {
		case "simple2", "simple1":
			sc.BadOpt = pick(r, "nil-handle", "nil-handle", "nil-divider", "zero-h")
		case "prio2":
			sc.BadOpt = pick(r, "nil-divider", "zero-h")
		default:
			sc.BadOpt = pick(r, "nil-divider", "zero-h", "nil-output", "nil-feedback")
		}
	}

	if engine == "prio2" && (prop == "C15" || prop == "C07" || prop == "C19") && r.Intn(4) == 0 {
		sc.LateErr = true
	}

	if prop == "C02" && sc.Class == "normal" && len(sc.Inputs) > 0 && r.Intn(6) == 0 {
		i := r.Intn(len(sc.Inputs))
		sc.Inputs[i].Thief = between(r, 1, 6)
		sc.Inputs[i].ThiefDelay = int64(pick(r, 0, 1, 3, 10))
	}

	sc.ReuseMap = r.Intn(4) == 0
	if sc.ReuseMap {
		sc.ReuseKeys = r.Intn(4)
	}

	if sc.Class == "stop" && engine == "simple1" && r.Intn(2) == 0 {
		sc.Linger = int64(pick(r, 1, 3, 10))
	}

	// stop scenarios: two callers of Stop at once - the second one is started first, in a
	// task of its own, and the script's own (blocking) Stop follows within a few ns
	if sc.Class == "stop" && r.Intn(4) == 0 {
		for i := len(sc.Ctl) - 1; i >= 0; i-- {
			if sc.Ctl[i].Kind == "stop" {
				early := PAction{WaitNs: sc.Ctl[i].WaitNs, WaitSteps: sc.Ctl[i].WaitSteps, Kind: "stop2"}
				sc.Ctl[i].WaitNs, sc.Ctl[i].WaitSteps = int64(r.Intn(3)), 0
				sc.Ctl = append(sc.Ctl[:i], append([]PAction{early}, sc.Ctl[i:]...)...)

				break
			}
		}
	}

	// stop scenarios: a second Stop / a GracefulStop after the first Stop (or cancel)
	if sc.Class == "stop" && (r.Intn(3) == 0 || (sc.Linger > 0 && r.Intn(2) == 0)) {
		sc.Ctl = append(sc.Ctl, PAction{WaitNs: int64(r.Intn(2)), Kind: pick(r, "stop2", "stop2", "graceful")})
	}

	sc.Unit = idleUnit(v1)
	scaleTimes(sc, sc.Unit)

	sc.Horizon = prioHorizon(sc)

	return sc
}

// scaleTimes multiplies every pause of the scenario by the measured idle period, so that
// "a few idle rounds" means the same whatever the discipline's polling constants are.
func scaleTimes(sc *PrioSc, u int64) {
	if u <= 1 {
		return
	}

	for i := range sc.Inputs {
		for b := range sc.Inputs[i].Bursts {
			sc.Inputs[i].Bursts[b].Delay *= u
		}
	}

	for i := range sc.Handlers {
		for d := range sc.Handlers[i].Delays {
			sc.Handlers[i].Delays[d] *= u
		}
	}

	for i := range sc.Ctl {
		sc.Ctl[i].WaitNs *= u
	}
}

var idleUnits = map[bool]int64{}

// idleUnit measures how much simulated time one idle round of the priority discipline
// takes: an idle discipline is watched for a growing span until it has gone quiet (slept)
// at least 16 times. Nothing is assumed about the library's constants.
func idleUnit(v1 bool) int64 {
	if u, ok := idleUnits[v1]; ok {
		return u
	}

	u := int64(1 << 30)

	for span := int64(64); span <= 1<<36; span *= 16 {
		var q int64

		runBubble(func() {
			res := simrt.Run(simrt.Config{MaxSteps: 200_000, Horizon: time.Duration(4 * span)}, simrt.NewChoices(1, simrt.Policy{}), func() {
				in := make(chan int, 1)
				inputs := map[uint]<-chan int{1: in}

				if v1 {
					out := make(chan prio1.Prioritized[int], 1)
					fb := make(chan uint, 1)

					dsc, err := prio1.New(prio1.Opts[int]{Divider: prio1.FairDivider, Feedback: fb, HandlersQuantity: 1, Inputs: inputs, Output: out})
					if err != nil {
						return
					}

					simrt.Sleep("env:calibrate", time.Duration(span))
					dsc.Stop()

					return
				}

				dsc, err := prio2.New(prio2.Opts[int]{Divider: div2.Fair, HandlersQuantity: 1, Inputs: inputs})
				if err != nil {
					return
				}

				simrt.Sleep("env:calibrate", time.Duration(span))
				simrt.Close("env:calibrate", in)

				for {
					if _, open := simrt.Recv2("env:calibrate", dsc.Output()); !open {
						break
					}
				}
			})

			q = res.Quiescents
		})

		if q >= 16 {
			u = max(1, span/q)
			break
		}
	}

	idleUnits[v1] = u

	return u
}

func dynamicAcceptable(sc *PrioSc, h int) bool {
	reg := map[uint]bool{}

	for _, in := range sc.Inputs {
		if !in.Late {
			reg[in.Prio] = true
		}
	}

	check := func() bool {
		var ps []uint
		for p := range reg {
			ps = append(ps, p)
		}

		if len(ps) == 0 {
			return true
		}

		sort.Slice(ps, func(i, j int) bool { return ps[i] > ps[j] })

		return acceptable(sc.Divider, ps, h)
	}

	if !check() {
		return false
	}

	for _, a := range sc.Ctl {
		switch a.Kind {
		case "add":
			reg[sc.Inputs[a.A].Prio] = true
		case "remove":
			delete(reg, sc.Inputs[a.A].Prio)
		default:
			continue
		}

		if !check() {
			return false
		}
	}

	return true
}

func prioHorizon(sc *PrioSc) int64 {
	u := max(1, sc.Unit)

	var t int64 = 3000 * u

	for _, in := range sc.Inputs {
		for _, b := range in.Bursts {
			t += b.Delay
		}
	}

	items := 0
	for _, in := range sc.Inputs {
		items += in.Prefill
		for _, b := range in.Bursts {
			items += b.N
		}
	}

	var dmax int64
	for _, h := range sc.Handlers {
		for _, d := range h.Delays {
			dmax = max(dmax, d)
		}
	}

	t += dmax * int64(items+1)

	for _, a := range sc.Ctl {
		t += a.WaitNs

		if a.WaitSteps > 0 {
			t += 5000 // a step wait in a silent system is released after 5 us (simrt.stepWaitSilence)
		}
	}

	return 3 * t
}

// ---------------------------------------------------------------------------------
// environment

type prioHandle struct {
	release  func(p uint, done <-chan struct{}) bool
	stop     func()
	graceful func()
	cancel   func()
	add      func(ch <-chan int, p uint)
	remove   func(p uint)
	errCh    <-chan error
}

func runBubble(f func()) { bubbleRunner(f) }

// bubbleRunner is installed by the worker (it needs a *testing.T).
var bubbleRunner func(f func())

func buildPrio(sc *PrioSc) (simrt.Config, func()) {
	cfg := simrt.Config{MaxSteps: 600_000, Horizon: time.Duration(sc.Horizon), LivelockSteps: 30_000}

	for _, in := range sc.Inputs {
		if in.Writers > 0 {
			cfg.RecordEmptyPolls = true

			// the discipline's goroutine may be held up for a nanosecond or two now and then
			// (its 1 ns interrupter then ticks again, as it does all the time on real hardware)
			cfg.StallDurs = []time.Duration{1, 1, 2}
			cfg.StallPer1024, cfg.MaxStalls = 16, 8
		}
	}

	main := func() {
		chans := make([]chan int, len(sc.Inputs))
		prodDone := make([]chan struct{}, len(sc.Inputs))

		for i, in := range sc.Inputs {
			chans[i] = make(chan int, in.Cap)
			prodDone[i] = make(chan struct{})
			simrt.NameRecv(chans[i], fmt.Sprintf("in[%d]", i))
		}

		itemID := func(i, k int) int { return (i+1)*100_000 + k + 1 }

		for i, in := range sc.Inputs {
			for k := 0; k < in.Prefill; k++ {
				simrt.Send("env:prefill", chans[i], itemID(i, k))
			}
		}

		done := make(chan struct{}) // closed when the discipline is known to have terminated

		// the (possibly faulty) divider
		fired := false

		onDivide := func(priorities []uint, dividend uint, distribution map[uint]uint) {
			idx := simrt.AddVar(varDivCalls, 1) - 1 // 0 is the call made by New (v2) / the first strategic call (v1)

			ps := make([]int, len(priorities))
			for i, p := range priorities {
				ps[i] = int(p)
			}

			nilDist := int64(0)
			if distribution == nil {
				nilDist = 1
			}

			simrt.NoteSlice(fmt.Sprintf("div-call nil=%d dividend=%d", nilDist, dividend), idx, ps)
		}

		faultNow := func(strategic bool) bool {
			if sc.Fault == nil || fired {
				return false
			}

			if sc.Fault.Call < 0 {
				return strategic && simrt.GetVar(varDivCalls) == 1
			}

			if strategic {
				return false
			}

			// count round divisions only
			return simrt.AddVar(varDivCalls+10, 1)-1 == int64(sc.Fault.Call)
		}

		divV2 := func(priorities []uint, dividend uint, distribution map[uint]uint) {
			onDivide(priorities, dividend, distribution)
			baseDivider(sc.Divider)(priorities, dividend, distribution)

			strategic := simrt.GetVar(varDivCalls) == 1
			if faultNow(strategic) && corrupt(priorities, distribution, sc.Fault.Delta) {
				fired = true
				simrt.Note("div-fault", int64(sc.Fault.Delta), int64(dividend))
			}
		}

		divV1 := func(priorities []uint, dividend uint, distribution map[uint]uint) map[uint]uint {
			onDivide(priorities, dividend, distribution)
			strategic := distribution == nil
			out := baseDividerV1(sc.Divider)(priorities, dividend, distribution)

			if faultNow(strategic) && corrupt(priorities, out, sc.Fault.Delta) {
				fired = true
				simrt.Note("div-fault", int64(sc.Fault.Delta), int64(dividend))
			}

			return out
		}

		inputs := map[uint]<-chan int{}

		for i, in := range sc.Inputs {
			if !in.Late {
				inputs[in.Prio] = chans[i]
			}
		}

		// saturation through blocked writers: they must all be blocked before New
		writers := false

		for i := range sc.Inputs {
			i := i
			in := sc.Inputs[i]

			for w := 0; w < in.Writers; w++ {
				writers = true

				simrt.GoEnv(fmt.Sprintf("writer[%d.%d]", i, w), func() {
					for {
						k := int(simrt.AddVar(varWritten+i, 1)) - 1 + in.Prefill
						if k >= in.Total {
							return
						}

						simrt.Note("write-start", int64(itemID(i, k)), 0)

						if !simrt.SendOr("env:producer", chans[i], itemID(i, k), done) {
							simrt.Note("write-abandoned", int64(itemID(i, k)), 0)
							return
						}
					}
				})
			}
		}

		if writers {
			simrt.Sleep("env:main", 1) // time passes only once every writer is blocked
		}

		var h prioHandle

		ctx, cancel := context.WithCancel(context.Background())
		h.cancel = cancel

		// without a cancel in the script the caller may just as well pass no context
		var optCtx context.Context = ctx

		hasCancel := false
		for _, a := range sc.Ctl {
			if a.Kind == "cancel" {
				hasCancel = true
			}
		}

		if !hasCancel && sc.H%2 == 0 {
			optCtx = nil
		}

		handlerFor := func(ordinal int64) PHandler { return sc.Handlers[int(ordinal)%len(sc.Handlers)] }
		resumeShared := make(chan struct{}, 4096)

		// Plain user data written by Handle and read by whoever waited for the discipline
		// to terminate (the usual "collect the results after GracefulStop" pattern): the
		// race build sees a report if termination is announced while Handle still runs.
		results := make([]int, 8192)

		readResults := func() {
			sum := 0
			for _, x := range results {
				sum += x
			}

			simrt.AddVar(varSink, int64(sum)) // keeps the reads alive without sharing a plain variable
		}

		// the Handle callback of the simplified disciplines
		handle := func(hctx context.Context, item int) {
			n := simrt.AddVar(varHandleCalls, 1)
			results[int(n)%len(results)] = item
			simrt.AddVar(varRunning, 1)
			simrt.Note("handle-enter", int64(item), simrt.GetVar(varRunning))

			hd := handlerFor(n)

			if hd.Manual && simrt.GetVar(varAuto) == 0 {
				if hctx != nil {
					simrt.RecvOr("env:handle", resumeShared, hctx.Done())
				} else {
					simrt.Recv("env:handle", resumeShared)
				}
			} else if len(hd.Delays) > 0 {
				d := hd.Delays[int(n)%len(hd.Delays)]
				if hctx != nil {
					simrt.SleepOr("env:handle", ns(d), hctx.Done())
				} else {
					simrt.Sleep("env:handle", ns(d))
				}
			}

			if sc.Linger > 0 && hctx != nil && hctx.Err() != nil {
				simrt.Sleep("env:handle-linger", ns(sc.Linger))
			}

			results[int(n)%len(results)] = -item
			simrt.AddVar(varRunning, -1)
			simrt.Note("handle-exit", int64(item), 0)
		}

		var (
			outV2 <-chan types2.Prioritized[int]
			outV1 chan prio1.Prioritized[int]

			outSeenClosed = func() {}
		)

		newErr := func(err error) {
			code := int64(9)

			switch {
			case errors.Is(err, prio2.ErrDividerBad), errors.Is(err, prio1.ErrDividerBad):
				code = 1
			case errors.Is(err, prio2.ErrHandlersQuantityTooSmall):
				code = 2
			}

			simrt.Note("new-error", code, 0)
			cancel()
		}

		var (
			optDivV2   div2.Divider  = divV2
			optDivV1   prio1.Divider = divV1
			optHandle1               = handle
			optHandle2               = func(item int) { handle(nil, item) }
			optH                     = uint(sc.H)
		)

		switch sc.BadOpt {
		case "nil-handle":
			optHandle1, optHandle2 = nil, nil
		case "nil-divider":
			optDivV2, optDivV1 = nil, nil
		case "zero-h":
			optH = 0
		}

		switch sc.Engine {
		case "prio2":
			dsc, err := prio2.New(prio2.Opts[int]{Divider: optDivV2, HandlersQuantity: optH, Inputs: inputs})
			if err != nil {
				newErr(err)
				return
			}

			outV2 = dsc.Output()
			simrt.NameRecv(outV2, "output")
			h.release = func(p uint, _ <-chan struct{}) bool { dsc.Release(p); return true }
			h.errCh = dsc.Err()
		case "simple2":
			dsc, err := simple2.New(simple2.Opts[int]{Divider: optDivV2, Handle: optHandle2, HandlersQuantity: optH, Inputs: inputs})
			if err != nil {
				newErr(err)
				return
			}

			h.errCh = dsc.Err()
		case "prio1":
			outV1 = make(chan prio1.Prioritized[int], sc.OutCap)
			fb := make(chan uint, sc.FbCap)
			simrt.NameSend(outV1, "output")
			simrt.NameRecv(fb, "feedback")

			optOut, optFb := outV1, fb

			switch sc.BadOpt {
			case "nil-output":
				optOut = nil
			case "nil-feedback":
				optFb = nil
			}

			dsc, err := prio1.New(prio1.Opts[int]{Ctx: optCtx, Divider: optDivV1, Feedback: optFb, HandlersQuantity: optH, Inputs: inputs, Output: optOut})
			if err != nil {
				newErr(err)
				return
			}

			h.release = func(p uint, d <-chan struct{}) bool { return simrt.SendOr("env:handler", fb, p, d) }
			h.stop, h.graceful = dsc.Stop, dsc.GracefulStop
			h.add = func(ch <-chan int, p uint) { dsc.AddInput(ch, p) }
			h.remove = dsc.RemoveInput
			h.errCh = dsc.Err()
		case "simple1":
			dsc, err := prio1.NewSimple(prio1.SimpleOpts[int]{Ctx: optCtx, Divider: optDivV1, Handle: optHandle1, HandlersQuantity: optH, Inputs: inputs})
			if err != nil {
				newErr(err)
				return
			}

			h.stop, h.graceful = dsc.Stop, dsc.GracefulStop
			h.errCh = dsc.Err()
		}

		simrt.NameRecv(h.errCh, "err")
		simrt.Note("new", int64(sc.H), 0)

		if sc.ReuseMap {
			first := true

			for _, p := range simrt.MapKeys("env:reuse-map", inputs) {
				if sc.ReuseKeys == 3 || (sc.ReuseKeys == 2 && !first) {
					continue
				}

				first = false

				delete(inputs, p)
			}

			if sc.ReuseKeys == 0 || sc.ReuseKeys == 3 {
				inputs[987654321] = nil
			}
		}

		// Err reader: its closure is the termination signal every engine has
		outDone := make(chan struct{})
		outSeenClosed = func() {
			if simrt.AddVar(varOutSeen, 1) == 1 {
				simrt.Close("env:handler", outDone)
			}
		}

		simrt.GoEnv("err-reader", func() {
			if sc.LateErr && outV2 != nil {
				simrt.Recv2("env:err-wait", outDone)
			}

			for {
				err, ok := simrt.Recv2("env:err", h.errCh)
				if !ok {
					break
				}

				code := int64(0)

				switch {
				case err == nil:
				case errors.Is(err, prio2.ErrDividerBad), errors.Is(err, prio1.ErrDividerBad):
					code = 1
				default:
					code = 9
				}

				simrt.Note("err", code, 0)
			}

			simrt.Note("err-closed", 0, 0)

			if !sc.plain() {
				readResults()
			}

			simrt.Close("env:err", done)
		})

		// second readers of shared input channels
		for i := range sc.Inputs {
			i := i
			in := sc.Inputs[i]

			if in.Thief == 0 {
				continue
			}

			simrt.GoEnv(fmt.Sprintf("thief[%d]", i), func() {
				for n := 0; n < in.Thief; n++ {
					item, ok, got := simrt.RecvOr("env:thief", (<-chan int)(chans[i]), done)
					if !got || !ok {
						return
					}

					simrt.Note("stolen", int64(item), 0)

					if !simrt.SleepOr("env:thief", ns(in.ThiefDelay), done) {
						return
					}
				}
			})
		}

		// producers
		for i := range sc.Inputs {
			i := i
			in := sc.Inputs[i]

			simrt.GoEnv(fmt.Sprintf("producer[%d]", i), func() {
				k := in.Prefill

			script:
				for _, b := range in.Bursts {
					if !simrt.SleepOr("env:producer", ns(b.Delay), done) {
						break
					}

					for n := 0; n < b.N; n++ {
						simrt.Note("write-start", int64(itemID(i, k)), 0)

						if !simrt.SendOr("env:producer", chans[i], itemID(i, k), done) {
							simrt.Note("write-abandoned", int64(itemID(i, k)), 0)
							break script
						}

						k++
					}
				}

				if in.Close {
					simrt.Close("env:producer", chans[i])
				}

				simrt.Close("env:producer", prodDone[i])
			})
		}

		// handlers of the plain disciplines
		resume := make([]chan struct{}, len(sc.Handlers))

		if sc.plain() && sc.Dispatch {
			for hi := range sc.Handlers {
				resume[hi] = make(chan struct{}, 4096)
			}

			simrt.GoEnv("reader", func() {
				for n := 0; ; n++ {
					var it pitem

					if outV2 != nil {
						p, ok := simrt.Recv2("env:handler", outV2)
						if !ok {
							simrt.Note("out-closed", 0, 0)
							outSeenClosed()

							return
						}

						it = pitem{p.Item, p.Priority}
					} else {
						p, ok, got := simrt.RecvOr("env:handler", (<-chan prio1.Prioritized[int])(outV1), done)
						if !got || !ok {
							return
						}

						it = pitem{p.Item, p.Priority}
					}

					simrt.Note("got", int64(it.item), int64(it.prio))

					n, it := n, it
					hi := n % len(sc.Handlers)
					hd := sc.Handlers[hi]

					simrt.GoEnv(fmt.Sprintf("releaser[%d]", n), func() {
						if hd.Manual && simrt.GetVar(varAuto) == 0 {
							if _, _, got := simrt.RecvOr("env:handler", resume[hi], done); !got {
								return
							}
						} else if len(hd.Delays) > 0 {
							if !simrt.SleepOr("env:handler", ns(hd.Delays[(n/len(sc.Handlers))%len(hd.Delays)]), done) {
								return
							}
						}

						simrt.Note("release", int64(it.item), int64(it.prio))

						if !h.release(it.prio, done) {
							simrt.Note("release-abandoned", int64(it.item), int64(it.prio))
							return
						}

						simrt.Note("released", int64(it.item), int64(it.prio))
					})
				}
			})
		} else if sc.plain() {
			for hi := range sc.Handlers {
				hi := hi
				hd := sc.Handlers[hi]
				resume[hi] = make(chan struct{}, 4096)

				simrt.GoEnv(fmt.Sprintf("handler[%d]", hi), func() {
					for n := 0; ; n++ {
						var it pitem

						if outV2 != nil {
							p, ok := simrt.Recv2("env:handler", outV2)
							if !ok {
								simrt.Note("out-closed", int64(hi), 0)
								outSeenClosed()

								return
							}

							it = pitem{p.Item, p.Priority}
						} else {
							p, ok, got := simrt.RecvOr("env:handler", (<-chan prio1.Prioritized[int])(outV1), done)
							if !got || !ok {
								return
							}

							it = pitem{p.Item, p.Priority}
						}

						simrt.Note("got", int64(it.item), int64(it.prio))

						if hd.Manual && simrt.GetVar(varAuto) == 0 {
							if _, _, got := simrt.RecvOr("env:handler", resume[hi], done); !got {
								return
							}
						} else if len(hd.Delays) > 0 {
							if !simrt.SleepOr("env:handler", ns(hd.Delays[n%len(hd.Delays)]), done) {
								return
							}
						}

						simrt.Note("release", int64(it.item), int64(it.prio))

						if !h.release(it.prio, done) {
							simrt.Note("release-abandoned", int64(it.item), int64(it.prio))
							return
						}

						simrt.Note("released", int64(it.item), int64(it.prio))

						if hd.Quit > 0 && n+1 >= hd.Quit {
							simrt.Note("handler-stops-reading", int64(hi), 0)
							simrt.Recv("env:handler", done)

							return
						}
					}
				})
			}
		}

		// controller
		simrt.GoEnv("controller", func() {
			for _, a := range sc.Ctl {
				if a.WaitSteps > 0 {
					simrt.WaitStep(simrt.Step() + a.WaitSteps)
				}

				if a.WaitNs > 0 {
					simrt.Sleep("env:controller", ns(a.WaitNs))
				}

				switch a.Kind {
				case "mark":
					simrt.Note("mark", int64(a.A), 0)
				case "resume":
					if sc.plain() {
						for _, hi := range a.List {
							simrt.Send("env:controller", resume[hi%len(resume)], struct{}{})
						}
					} else {
						for range a.List {
							simrt.Send("env:controller", resumeShared, struct{}{})
						}
					}
				case "autoall":
					simrt.SetVar(varAuto, 1)
					simrt.Note("autoall", 0, 0)

					for i := 0; i < sc.H+1; i++ {
						if sc.plain() {
							for hi := range resume {
								if sc.Handlers[hi].Manual {
									simrt.Send("env:controller", resume[hi], struct{}{})
								}
							}

							break
						}

						simrt.Send("env:controller", resumeShared, struct{}{})
					}
				case "closein":
					simrt.Recv("env:controller", prodDone[a.A])
					simrt.Close("env:controller", chans[a.A])
				case "closeall":
					for i, in := range sc.Inputs {
						if !in.Close {
							simrt.Recv("env:controller", prodDone[i])
							simrt.Close("env:controller", chans[i])
						}
					}
				case "stop":
					if h.stop != nil {
						simrt.Note("stop-call", 0, 0)
						h.stop()
						simrt.Note("stop-returned", 0, 0)

						if !sc.plain() {
							readResults()
						}
					}
				case "stop2":
					// a second caller of Stop, concurrent with whatever the first one does
					if h.stop != nil {
						simrt.GoEnv("stop2", func() {
							simrt.Note("stop2-call", 0, 0)
							h.stop()
							simrt.Note("stop2-returned", 0, 0)
						})
					}
				case "cancel":
					simrt.Note("cancel", 0, 0)
					h.cancel()
				case "graceful":
					if h.graceful != nil {
						simrt.GoEnv("graceful", func() {
							simrt.Note("graceful-call", 0, 0)
							h.graceful()
							simrt.Note("graceful-returned", 0, 0)

							if !sc.plain() {
								readResults()
							}
						})
					}
				case "add":
					if h.add != nil {
						simrt.Note("add-call", int64(a.A), int64(sc.Inputs[a.A].Prio))
						h.add(chans[a.A], sc.Inputs[a.A].Prio)
						simrt.Note("add-returned", int64(a.A), int64(sc.Inputs[a.A].Prio))
					}
				case "remove":
					if h.remove != nil {
						simrt.Note("remove-call", int64(a.A), int64(sc.Inputs[a.A].Prio))
						h.remove(sc.Inputs[a.A].Prio)
						simrt.Note("remove-returned", int64(a.A), int64(sc.Inputs[a.A].Prio))
					}
				}
			}
		})
	}

	return cfg, main
}
