package harness

import (
	"encoding/json"
	"fmt"
	"sort"
	"time"

	"verif/simrt"
)

// Violation is one failed oracle rule.
type Violation struct {
	Rule   string         `json:"rule"`
	Detail string         `json:"detail"`
	Facts  map[string]any `json:"facts,omitempty"` // API-level facts used to match known findings
}

// Verdict is what the oracle of one property says about one run.
type Verdict struct {
	Viol   []Violation
	Faults map[string]int // fault kinds that actually fired in this run
	Probes map[string]int // "rare condition was hit" probes
	// Inconclusive: the run could not be judged (budget exhausted in a way no rule
	// attributes). Never reported as a violation.
	Inconclusive string
	// Skipped: the scenario was not executed (constructor rejected the configuration).
	Skipped string
}

func (v *Verdict) fail(rule, format string, args ...any) {
	v.Viol = append(v.Viol, Violation{Rule: rule, Detail: fmt.Sprintf(format, args...)})
}

func (v *Verdict) failFacts(rule string, facts map[string]any, format string, args ...any) {
	v.Viol = append(v.Viol, Violation{Rule: rule, Detail: fmt.Sprintf(format, args...), Facts: facts})
}

func (v *Verdict) fault(kind string) {
	if v.Faults == nil {
		v.Faults = map[string]int{}
	}

	v.Faults[kind]++
}

func (v *Verdict) probe(name string) {
	if v.Probes == nil {
		v.Probes = map[string]int{}
	}

	v.Probes[name]++
}

// Engine is one discipline wired to its environment.
type Engine struct {
	Name string
	// Gen draws a scenario for the property from the run's PRNG.
	Gen func(prop string, r *simrt.SplitMix) any
	// Decode parses a stored scenario.
	Decode func(raw json.RawMessage) (any, error)
	// Build returns the run bounds and the body of the main environment task.
	Build func(sc any) (simrt.Config, func())
	// Check evaluates the oracle of prop over the finished run.
	Check func(prop string, sc any, res *simrt.Result) Verdict
	// Shrink proposes smaller scenarios.
	Shrink func(sc any) []any
}

// scale enlarges the scenarios of the thorough tier (1 = quick): more items, more
// handlers, longer controller scripts. Set by the worker from SIM_TIER.
var scale = 1

var engines = map[string]*Engine{}

func register(e *Engine) { engines[e.Name] = e }

// Which engines serve which property (order matters: run i uses engine i mod n).
var propEngines = map[string][]string{
	"C01": {"prio2", "simple2", "prio1", "simple1"},
	"C02": {"prio2", "simple2", "prio1", "simple1"},
	"C03": {"join2", "unite2", "join1"},
	"C04": {"limit2"},
	"C05": {"prio2", "prio1"},
	"C06": {"prio2", "prio1"},
	"C07": {"prio2", "simple2", "prio1", "simple1"},
	"C08": {"join2", "unite2", "join1"},
	"C09": {"join2", "unite2", "join1"},
	"C10": {"join2", "unite2", "join1"},
	"C11": {"unite2"},
	"C12": {"limit2"},
	"C15": {"prio2", "prio1"},
	"C16": {"join1", "prio1", "simple1"},
	"C17": {"prio1"},
	"C19": {"prio2", "simple2", "prio1", "simple1", "join2", "unite2", "join1", "limit2"},
	"C20": {"prio2", "simple2", "prio1", "simple1", "join2", "unite2", "join1", "limit2"},
}

// Policies of the swarm: every run draws one.
func genPolicy(r *simrt.SplitMix, steps int64) simrt.Policy {
	p := genPolicy0(r, steps)
	p.MapPer1024 = pick(r, 0, 256, 1024)

	return p
}

func genPolicy0(r *simrt.SplitMix, steps int64) simrt.Policy {
	switch r.Intn(6) {
	case 0: // run-to-block with K forced preemptions
		k := r.Intn(7)
		at := make([]int64, k)

		for i := range at {
			at[i] = 1 + int64(r.Intn(int(steps)))
		}

		sort.Slice(at, func(i, j int) bool { return at[i] < at[j] })

		return simrt.Policy{Name: fmt.Sprintf("rtb%d", k), PreemptAt: at, SelectPer1024: []int{0, 128, 512}[r.Intn(3)]}
	case 1:
		return simrt.Policy{Name: "uniform-1/2", PreemptPer1024: 512, PickUniform: true, SelectPer1024: 512}
	case 2:
		return simrt.Policy{Name: "uniform-1/8", PreemptPer1024: 128, PickUniform: true, SelectPer1024: 256}
	case 3:
		return simrt.Policy{Name: "uniform-1/32", PreemptPer1024: 32, PickUniform: true, SelectPer1024: 128}
	case 4:
		return simrt.Policy{Name: "pct-1/64", PreemptPer1024: 16, PickByPrio: true, SelectPer1024: 128}
	default:
		return simrt.Policy{Name: "rtb-uniformpick", PickUniform: true, SelectPer1024: 1024}
	}
}

// ---------------------------------------------------------------------------------
// history helpers

type hist []simrt.Rec

func (h hist) notes(name string) []simrt.Rec {
	var out []simrt.Rec

	for _, r := range h {
		if r.Kind == simrt.KNote && r.Note == name {
			out = append(out, r)
		}
	}

	return out
}

func (h hist) firstNote(name string) (simrt.Rec, bool) {
	for _, r := range h {
		if r.Kind == simrt.KNote && r.Note == name {
			return r, true
		}
	}

	return simrt.Rec{}, false
}

func ns(d int64) time.Duration { return time.Duration(d) }

// stalledIn is the total length of the injected stalls of library goroutines that began
// within [from, to] (simulated ns since the start of the run): the latency budget every
// "not later than" rule grants on top of its bound.
func stalledIn(res *simrt.Result, from, to int64) int64 {
	total := int64(0)

	for _, r := range res.Hist {
		if r.Kind == simrt.KNote && r.Note == "sim-stall" && r.T >= from && r.T <= to {
			total += r.Val
		}
	}

	return total
}

func libTasksAlive(res *simrt.Result) []string {
	var out []string

	for _, t := range res.Tasks {
		if t.Lib && !t.Done {
			out = append(out, fmt.Sprintf("task %d started at %s is %s at %q", t.ID, t.Name, t.State, t.BlockSite))
		}
	}

	return out
}

func envTasksAlive(res *simrt.Result) []string {
	var out []string

	for _, t := range res.Tasks {
		if !t.Lib && !t.Done {
			out = append(out, fmt.Sprintf("task %d %s is %s at %q", t.ID, t.Name, t.State, t.BlockSite))
		}
	}

	return out
}

func cloneJSON[T any](v T) T {
	data, err := json.Marshal(v)
	if err != nil {
		panic(err)
	}

	var out T

	if err := json.Unmarshal(data, &out); err != nil {
		panic(err)
	}

	return out
}

func decodeAs[T any](raw json.RawMessage) (any, error) {
	var v T

	if err := json.Unmarshal(raw, &v); err != nil {
		return nil, err
	}

	return &v, nil
}

func pick[T any](r *simrt.SplitMix, xs ...T) T { return xs[r.Intn(len(xs))] }

func between(r *simrt.SplitMix, lo, hi int) int {
	if hi <= lo {
		return lo
	}

	return lo + r.Intn(hi-lo+1)
}
