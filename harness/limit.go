package harness

import (
	"encoding/json"
	"fmt"
	"math"
	"time"

	"verif/simrt"

	"github.com/akramarenkov/cqos/v2/limit"
)

// LimitSc is a scenario of the limit2 engine.
type LimitSc struct {
	Engine   string  `json:"engine"`
	Class    string  `json:"class"` // "mixed" or "eager" (everything available, eager consumer)
	Q        uint64  `json:"q"`
	I        int64   `json:"i"` // interval in simulated ns
	InCap    int     `json:"in_cap"`
	Prefill  int     `json:"prefill"`
	Bursts   []Burst `json:"bursts"`
	ConsDel  []int64 `json:"cons_delays"` // consumer pause after item k (cycled)
	StallAt  int     `json:"stall_at"`    // consumer stalls once before reading item #StallAt (0 = never)
	StallFor int64   `json:"stall_for"`
	Horizon  int64   `json:"horizon"`
	// Stalls (C04): durations by which the discipline's goroutine may be held up at the
	// start and before any of its operations (a descheduled goroutine, a GC pause).
	Stalls []int64 `json:"stalls,omitempty"`
}

// Burst is a producer pause followed by N writes.
type Burst struct {
	Delay int64 `json:"delay"`
	N     int   `json:"n"`
}

func (sc *LimitSc) total() int {
	n := sc.Prefill

	for _, b := range sc.Bursts {
		n += b.N
	}

	return n
}

func init() {
	register(&Engine{
		Name:   "limit2",
		Gen:    func(prop string, r *simrt.SplitMix) any { return genLimit(prop, r) },
		Decode: decodeAs[LimitSc],
		Build:  func(sc any) (simrt.Config, func()) { return buildLimit(sc.(*LimitSc)) },
		Check:  func(prop string, sc any, res *simrt.Result) Verdict { return checkLimit(prop, sc.(*LimitSc), res) },
		Shrink: func(sc any) []any { return shrinkLimit(sc.(*LimitSc)) },
	})
}

func genLimit(prop string, r *simrt.SplitMix) *LimitSc {
	sc := &LimitSc{Engine: "limit2", Class: "mixed"}

	sc.Q = uint64(pick(r, 1, 1, 2, 3, 4, 5, 7, 10, 16, 50))
	if r.Intn(8) == 0 {
		sc.Q = uint64(between(r, 1, 50))
	}

	hugeQ := r.Intn(12) == 0

	sc.I = int64(pick(r, 1, 2, 3, 10, 100, 1000, 10_000, 1_000_000, 1_000_000_000))
	switch r.Intn(6) {
	case 0, 1:
		sc.I = int64(between(r, 1, 10_000))
	case 2:
		// log-uniform over 1 ns .. 10 s with arbitrary low digits: intervals that divide
		// nothing evenly (5.5 ms, 3 ms, 7 ms ...) are as legal as round ones
		hi := int64(10)
		for k := r.Intn(10); k > 0; k-- {
			hi *= 10
		}

		sc.I = hi/10 + int64(r.Intn(int(hi-hi/10)))
		if sc.I < 1 {
			sc.I = 1
		}
	}

	q := int(sc.Q)
	sc.InCap = pick(r, 0, 0, 1, q-1, q, q+1, 2*q, between(r, 0, 2*q))

	if sc.InCap < 0 {
		sc.InCap = 0
	}

	// element count: 0, <Q, =Q, kQ, kQ+r
	var n int

	switch r.Intn(6) {
	case 0:
		n = 0
	case 1:
		n = between(r, 0, q-1)
	case 2:
		n = q
	case 3:
		n = q * between(r, 1, 4*scale)
	default:
		n = q*between(r, 0, 4*scale) + between(r, 0, q)
	}

	if n > 160*scale {
		n = 160 * scale
	}

	if (prop == "C12" || prop == "C19" || prop == "C20") && r.Intn(2) == 0 {
		sc.Class = "eager"
	}

	if sc.Class == "eager" {
		if r.Intn(2) == 0 && n > 0 {
			sc.InCap = n + r.Intn(3)
			sc.Prefill = n
		} else {
			sc.Bursts = []Burst{{0, n}}
		}
	} else {
		rest := n

		if sc.InCap > 0 && r.Intn(3) == 0 {
			sc.Prefill = between(r, 0, min(sc.InCap, rest))
			rest -= sc.Prefill
		}

		pattern := r.Intn(3) // 0 trickle, 1 stall-then-burst, 2 random

		for rest > 0 {
			var b Burst

			switch pattern {
			case 0:
				b = Burst{Delay: int64(between(r, 0, int(min64(sc.I, 50)))), N: 1}
			case 1:
				b = Burst{Delay: sc.I*int64(between(r, 0, 3)) + int64(r.Intn(3)) - 1, N: between(r, 1, 2*q+1)}
			default:
				b = Burst{Delay: int64(r.Intn(int(min64(2*sc.I, 1<<30)) + 1)), N: between(r, 1, q+1)}
			}

			if b.Delay < 0 {
				b.Delay = 0
			}

			if b.N > rest {
				b.N = rest
			}

			rest -= b.N
			sc.Bursts = append(sc.Bursts, b)
		}

		switch r.Intn(4) {
		case 0: // eager consumer
		case 1: // slow consumer
			k := between(r, 1, 4)
			for i := 0; i < k; i++ {
				sc.ConsDel = append(sc.ConsDel, int64(r.Intn(int(min64(sc.I, 1<<20))+1)))
			}
		case 2: // stall then drain in a burst
			sc.StallAt = between(r, 1, max(1, n))
			sc.StallFor = sc.I*int64(between(r, 1, 5)) + int64(r.Intn(2))
		default:
			sc.ConsDel = []int64{0, 0, int64(r.Intn(3))}
			sc.StallAt = between(r, 1, max(1, n))
			sc.StallFor = int64(between(r, 1, int(min64(3*sc.I, 1<<30))))
		}
	}

	if hugeQ {
		// "practically unlimited": the whole uint64 range is legal
		sc.Q = pick(r, uint64(1)<<31, uint64(1)<<32+1, uint64(1)<<62, uint64(1)<<63-1, uint64(1)<<63, uint64(1)<<63+1, ^uint64(0))
	}

	sc.Horizon = limitHorizon(sc)

	if prop == "C04" && r.Intn(3) == 0 {
		sc.Stalls = []int64{1, pick(r, int64(2), 3, 7), sc.I/3 + 1, sc.I, 2*sc.I + 1}
		sc.Horizon += 4 * 3 * (2*sc.I + 1)
	}

	if prop == "C12" && r.Intn(3) == 0 {
		// C12's bounds are "not later than": every injected stall is granted on top of them
		sc.Stalls = []int64{1, 2, sc.I/7 + 1, sc.I/2 + 1, sc.I + 1}
		sc.Horizon += 4 * 3 * (sc.I + 2)
	}

	if prop == "C04" && r.Intn(12) == 0 {
		// "forever": Quantity elements, then nothing for centuries. The scenario (pauses,
		// horizon) stays the one drawn for the small interval; a correct discipline lets one
		// batch through and sleeps past the horizon.
		sc.I = pick(r, int64(math.MaxInt64), math.MaxInt64-1, 1<<62, 1<<62+12345, 3_000_000_000_000_000_000, 1<<55)
	}

	return sc
}

// satMul is a*b, saturating at MaxInt64 (counts in a run are far below that).
func satMul(a uint64, b int64) int64 {
	if b <= 0 {
		return 0
	}

	if a > uint64(1<<62)/uint64(b) {
		return 1 << 62
	}

	return int64(a) * b
}

func min64(a, b int64) int64 {
	if a < b {
		return a
	}

	return b
}

// limitHorizon is far above anything a correct discipline needs: all producer pauses,
// all consumer pauses, one interval per batch plus the trailing one, times four.
func limitHorizon(sc *LimitSc) int64 {
	n := int64(sc.total())
	t := sc.I * (int64(uint64(n)/sc.Q) + 2)

	for _, b := range sc.Bursts {
		t += b.Delay
	}

	var cmax int64
	for _, d := range sc.ConsDel {
		cmax = max(cmax, d)
	}

	t += cmax*n + sc.StallFor

	return 4*t + 1000
}

func buildLimit(sc *LimitSc) (simrt.Config, func()) {
	cfg := simrt.Config{MaxSteps: 200_000, Horizon: time.Duration(sc.Horizon)}

	for _, d := range sc.Stalls {
		cfg.StallDurs = append(cfg.StallDurs, time.Duration(d))
	}

	if len(sc.Stalls) > 0 {
		cfg.StallPer1024, cfg.MaxStalls = 48, 3
	}

	main := func() {
		in := make(chan int, sc.InCap)
		simrt.NameRecv(in, "input")

		next := 1

		for i := 0; i < sc.Prefill; i++ {
			simrt.Send("env:prefill", in, next)
			next++
		}

		dsc, err := limit.New(limit.Opts[int]{Input: in, Limit: limit.Rate{Interval: time.Duration(sc.I), Quantity: sc.Q}})
		if err != nil {
			simrt.Note("new-error", 0, 0)
			return
		}

		simrt.NameRecv(dsc.Output(), "output")
		simrt.Note("new", 0, 0)

		first := next

		simrt.GoEnv("producer", func() {
			id := first

			for _, b := range sc.Bursts {
				simrt.Sleep("env:producer", ns(b.Delay))

				for k := 0; k < b.N; k++ {
					simrt.Note("write-start", int64(id), 0)
					simrt.Send("env:producer", in, id)
					id++
				}
			}

			simrt.Close("env:producer", in)
		})

		simrt.GoEnv("consumer", func() {
			out := dsc.Output()

			for k := 1; ; k++ {
				if k == sc.StallAt {
					simrt.Sleep("env:consumer", ns(sc.StallFor))
				}

				v, ok := simrt.Recv2("env:consumer", out)
				if !ok {
					simrt.Note("out-closed", 0, 0)
					return
				}

				simrt.Note("got", int64(v), 0)

				if len(sc.ConsDel) > 0 {
					simrt.Sleep("env:consumer", ns(sc.ConsDel[k%len(sc.ConsDel)]))
				}
			}
		})
	}

	return cfg, main
}

func checkLimit(prop string, sc *LimitSc, res *simrt.Result) Verdict {
	var v Verdict

	h := hist(res.Hist)

	if _, bad := h.firstNote("new-error"); bad {
		v.Skipped = "constructor rejected the configuration"
		return v
	}

	newRec, ok := h.firstNote("new")
	if !ok {
		v.Inconclusive = "discipline was not created"
		return v
	}

	t0 := newRec.T

	type sent struct {
		t   int64
		val int64
		seq int64
	}

	var (
		sends      []sent
		written    []int64
		inClosed   int64 = -1
		outClosed  int64 = -1
		lastSend   int64 = -1
		closeCount int
	)

	for _, r := range res.Hist {
		switch {
		case r.Kind == simrt.KSend && r.ChName == "input":
			written = append(written, r.Val)
		case r.Kind == simrt.KClose && r.ChName == "input":
			inClosed = r.Seq
		case r.Kind == simrt.KSend && r.Lib && r.ChName == "output":
			sends = append(sends, sent{r.T - t0, r.Val, r.Seq})
			lastSend = r.Seq
		case r.Kind == simrt.KClose && r.ChName == "output":
			closeCount++
			outClosed = r.Seq
		}
	}

	if sc.StallAt > 0 {
		v.fault("consumer-stall")
	}

	for range h.notes("sim-stall") {
		v.fault("discipline-goroutine-stalled")
	}

	if len(sc.ConsDel) > 0 {
		v.fault("slow-consumer")
	}

	for _, b := range sc.Bursts {
		if b.Delay > sc.I {
			v.fault("producer-stall-then-burst")
			break
		}
	}

	q, iv := sc.Q, sc.I

	switch prop {
	case "C04":
		for k, s := range sends {
			if int64(k+1) > satMul(q, s.t/iv+1) {
				v.fail("rate-since-creation", "%d elements had left by t=%dns after creation; limit %d per %dns allows %d",
					k+1, s.t, q, iv, satMul(q, s.t/iv+1))

				break
			}
		}

		for i := range sends {
			bad := false

			for j := i + 1; j < len(sends); j++ {
				w := sends[j].t - sends[i].t
				if int64(j-i+1) > satMul(q, w/iv+2) {
					v.fail("rate-window", "%d elements left within a window of %dns (elements #%d..#%d at t=%d..%d); limit %d per %dns allows %d",
						j-i+1, w, i+1, j+1, sends[i].t, sends[j].t, q, iv, satMul(q, w/iv+2))

					bad = true

					break
				}
			}

			if bad {
				break
			}
		}

		if uint64(len(sends)) > q {
			v.probe("more-than-one-batch")
		}

		if q > 1<<30 {
			v.probe("huge-quantity")
		}

		if res.Sites != nil {
			for _, st := range res.Sites {
				if st.Site == "lib:v2/limit/limit.go:117" && st.Blocked > 0 {
					v.probe("discipline-blocked-on-full-output")
				}
			}
		}
	case "C12":
		// lossless and ordered
		for k, s := range sends {
			if k >= len(written) || s.val != written[k] {
				want := int64(-1)
				if k < len(written) {
					want = written[k]
				}

				v.fail("passthrough-order", "output element #%d is %d, input element #%d is %d", k+1, s.val, k+1, want)

				break
			}
		}

		if !res.AllDone {
			if len(sends) < len(written) && len(v.Viol) == 0 {
				v.fail("passthrough-loss", "%d elements written and input closed, only %d forwarded within %dns (%s)",
					len(written), len(sends), sc.Horizon, stuck(res))
			} else if outClosed < 0 {
				v.fail("no-close", "output not closed within %dns after input was closed and %d/%d elements forwarded (%s)",
					sc.Horizon, len(sends), len(written), stuck(res))
			}
		} else {
			if len(sends) != len(written) && len(v.Viol) == 0 {
				v.fail("passthrough-loss", "%d elements written, %d forwarded before the output closed", len(written), len(sends))
			}

			if outClosed >= 0 && (outClosed < inClosed || outClosed < lastSend) {
				v.fail("early-close", "output closed (seq %d) before input closed (seq %d) or before the last element was forwarded (seq %d)",
					outClosed, inClosed, lastSend)
			}
		}

		if closeCount > 1 {
			v.fail("double-close", "output closed %d times", closeCount)
		}

		if sc.Class == "eager" {
			for j, s := range sends {
				// every stall so far may have delayed everything after it by its length
				if lat := stalledIn(res, 0, s.t+t0); s.t > int64(uint64(j)/q)*iv+lat {
					v.fail("extra-throttling", "with everything available up-front element #%d left at t=%dns; rate %d per %dns allows it at t=%dns (plus %dns of injected scheduling latency)",
						j+1, s.t, q, iv, int64(uint64(j)/q)*iv, lat)

					break
				}
			}

			v.probe("eager-class")
		}

		// No extra throttling, for every arrival pattern as long as the consumer is always
		// ready: element j leaves no later than it became available, than its predecessor
		// left, or than one Interval after the element Quantity positions before it left
		// (exact in simulated time; the same bound with the close of the input as a virtual
		// last element covers "closes promptly").
		if len(sc.ConsDel) == 0 && sc.StallAt == 0 && len(v.Viol) == 0 {
			avail := map[int64]int64{}

			for _, r := range res.Hist {
				if r.Kind == simrt.KNote && r.Note == "write-start" {
					avail[r.Val] = r.T - t0
				}
			}

			bound := func(j int, a int64) int64 {
				b := a

				if j > 0 {
					b = max(b, sends[j-1].t)
				}

				if uint64(j) >= q {
					b = max(b, sends[j-int(q)].t+iv)
				}

				return b
			}

			for j, s := range sends {
				a := max(avail[s.val], 0) // prefilled elements were available at creation

				// a stall can only push element j past its bound if it began after the
				// previous element had left (earlier ones moved the reference points too)
				from := int64(0)
				if j > 0 {
					from = sends[j-1].t + t0
				}

				if b, lat := bound(j, a), stalledIn(res, from, s.t+t0); s.t > b+lat {
					v.fail("extra-throttling", "element #%d was available at t=%dns and left at t=%dns; the rate (%d per %dns) and the ready consumer allow t=%dns (plus %dns of injected scheduling latency)",
						j+1, a, s.t, q, iv, b, lat)

					break
				}
			}

			if outClosed >= 0 && inClosed >= 0 && len(sends) == len(written) {
				var closeT, inCloseT int64

				for _, r := range res.Hist {
					if r.Seq == outClosed {
						closeT = r.T - t0
					}

					if r.Seq == inClosed {
						inCloseT = r.T - t0
					}
				}

				from := int64(0)
				if len(sends) > 0 {
					from = sends[len(sends)-1].t + t0
				}

				if b := bound(len(sends), max(inCloseT, 0)) + stalledIn(res, from, closeT+t0); closeT > b && len(v.Viol) == 0 {
					v.fail("late-close", "input closed at t=%dns after %d elements, output closed at t=%dns; the rate and the ready consumer allow t=%dns", inCloseT, len(sends), closeT, b)
				}
			}

			v.probe("ready-consumer-run")
		}

		if len(written) == 0 {
			v.probe("zero-elements")
		}

		if len(written) > 0 && uint64(len(written))%q == 0 {
			v.probe("count-multiple-of-quantity")
		}

		if q > 1<<30 {
			v.probe("huge-quantity")
		}
	case "C19":
		checkGoroutines(&v, res, outClosed, "output closed", false)
	}

	return v
}

func stuck(res *simrt.Result) string {
	s := ""

	for _, t := range res.Tasks {
		if !t.Done {
			s += fmt.Sprintf("[%s %s at %s] ", t.Name, t.State, t.BlockSite)
		}
	}

	if res.Aborted {
		s += "aborted: " + res.AbortReason
	}

	return s
}

// checkGoroutines is the C19 oracle shared by all engines. termSeq is the position of
// the termination event in the history (-1: not terminated). When termination is a call
// returning (v1 Stop / GracefulStop) every goroutine started from library code must have
// exited before the call returned (strict). When it is a channel being closed, the
// goroutines that observe the closure necessarily exit after it: then nothing started
// from library code may be left once the run has gone quiet.
func checkGoroutines(v *Verdict, res *simrt.Result, termSeq int64, how string, strict bool) {
	if termSeq < 0 {
		return
	}

	if alive := libTasksAlive(res); len(alive) > 0 {
		v.fail("goroutine-left", "discipline terminated (%s) but %d of its goroutines remain: %v", how, len(alive), alive)
		return
	}

	var termT int64

	for _, r := range res.Hist {
		if r.Seq == termSeq {
			termT = r.T
		}
	}

	for _, r := range res.Hist {
		if r.Kind != simrt.KExit || !r.Lib || r.Seq <= termSeq {
			continue
		}

		if strict {
			v.fail("goroutine-outlives-call", "%s (seq %d) while goroutine %d started at %s was still running (it exited at seq %d)", how, termSeq, r.Task, r.TaskName, r.Seq)
			return
		}

		// closure-based termination: whoever observes the closure may finish after it,
		// but at once - a goroutine that is still there after simulated time has passed
		// was waiting for something (a release, a timer) after the discipline had
		// announced its termination
		if r.T > termT {
			v.fail("goroutine-lingers-after-close", "%s at t=%dns, goroutine %d started at %s was still there and exited only at t=%dns", how, termT, r.Task, r.TaskName, r.T)
			return
		}
	}
}

func shrinkLimit(sc *LimitSc) []any {
	var out []any

	add := func(f func(c *LimitSc)) {
		c := cloneJSON(*sc)
		f(&c)
		c.Horizon = limitHorizon(&c)
		out = append(out, &c)
	}

	for i := range sc.Bursts {
		i := i
		add(func(c *LimitSc) { c.Bursts = append(c.Bursts[:i:i], c.Bursts[i+1:]...) })

		if sc.Bursts[i].N > 1 {
			add(func(c *LimitSc) { c.Bursts[i].N /= 2 })
			add(func(c *LimitSc) { c.Bursts[i].N-- })
		}

		if sc.Bursts[i].Delay > 0 {
			add(func(c *LimitSc) { c.Bursts[i].Delay = 0 })
			add(func(c *LimitSc) { c.Bursts[i].Delay /= 2 })
		}
	}

	if sc.Prefill > 0 {
		add(func(c *LimitSc) { c.Prefill-- })
	}

	if sc.StallAt > 0 {
		add(func(c *LimitSc) { c.StallAt = 0; c.StallFor = 0 })
	}

	if len(sc.ConsDel) > 0 {
		add(func(c *LimitSc) { c.ConsDel = nil })
	}

	if sc.InCap > sc.Prefill {
		add(func(c *LimitSc) { c.InCap = c.Prefill })
	}

	if sc.Q > 1 && sc.Q < 1<<30 {
		add(func(c *LimitSc) { c.Q-- })
	}

	return out
}

var _ = json.Marshal
