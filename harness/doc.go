// Package harness holds the environment actors, scenario generators and oracles.
package harness
