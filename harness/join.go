package harness

import (
	"context"
	"fmt"
	"math"
	"time"

	"verif/simrt"

	join1 "github.com/akramarenkov/cqos/join"
	join2 "github.com/akramarenkov/cqos/v2/join"
	"github.com/akramarenkov/cqos/v2/join/unite"
)

// JoinSc is a scenario of the join1 / join2 / unite2 engines.
type JoinSc struct {
	Engine   string   `json:"engine"`
	Class    string   `json:"class"` // normal | eager | stop
	JoinSize int      `json:"join_size"`
	NoCopy   bool     `json:"no_copy"`
	Timeout  int64    `json:"timeout"` // ns, 0 = none
	Inacc    uint     `json:"inaccuracy"`
	InCap    int      `json:"in_cap"`
	RelCap   int      `json:"released_cap"` // v1: capacity of the user-owned Released channel
	Bursts   []JBurst `json:"bursts"`
	CloseDly int64    `json:"close_delay"` // pause between the last write and closing the input
	Cons     []JCons  `json:"consumer"`    // cycled per slice
	Scribble bool     `json:"scribble"`    // copy mode: consumer overwrites the slices it keeps
	StallAt  int      `json:"stall_at"`    // consumer pauses before reading slice #StallAt (0: never)
	StallFor int64    `json:"stall_for"`
	Stop     *JStop   `json:"stop,omitempty"`
	Horizon  int64    `json:"horizon"`
	// Stalls (C10): durations by which the discipline's goroutine may be held up at a clock
	// reading, before an operation or on waking up ("plus scheduling latency").
	Stalls []int64 `json:"stalls,omitempty"`
}

// JBurst is a producer pause followed by writes. For join engines each entry of Lens
// is one element (its value is ignored); for unite it is the length of one slice.
type JBurst struct {
	Delay int64 `json:"delay"`
	Lens  []int `json:"lens"`
}

// JCons is the consumer's behaviour for one slice.
type JCons struct {
	Read int64 `json:"read_delay"` // pause before reading
	Hold int64 `json:"hold"`       // time the slice is kept before it is released (no-copy)
}

// JStop injects v1 Stop() or context cancellation.
type JStop struct {
	AtNs       int64 `json:"at_ns"`
	AtStep     int64 `json:"at_step"`
	Cancel     bool  `json:"cancel"`        // cancel the context instead of calling Stop
	ThenStop   bool  `json:"then_stop"`     // after cancel, also call Stop() to wait
	NeverRel   bool  `json:"never_release"` // consumer never sends the release signal
	StopReader bool  `json:"stop_reader"`   // consumer stops reading at StallAt forever
	Second     bool  `json:"second_stop"`   // a second goroutine calls Stop() concurrently
	NoClose    bool  `json:"no_close"`      // the producer never closes the input (it just stops writing)
}

func (sc *JoinSc) class() string { return sc.Class }

func (sc *JoinSc) divider() int64 {
	in := sc.Inacc
	if in == 0 {
		in = 25
	}

	return int64(100 / in)
}

func (sc *JoinSc) interval() int64 {
	if sc.Timeout <= 0 {
		return 0
	}

	return sc.Timeout / sc.divider()
}

func init() {
	for _, name := range []string{"join1", "join2", "unite2"} {
		name := name
		register(&Engine{
			Name:   name,
			Gen:    func(prop string, r *simrt.SplitMix) any { return genJoin(name, prop, r) },
			Decode: decodeAs[JoinSc],
			Build:  func(sc any) (simrt.Config, func()) { return buildJoin(sc.(*JoinSc)) },
			Check:  func(prop string, sc any, res *simrt.Result) Verdict { return checkJoin(prop, sc.(*JoinSc), res) },
			Shrink: func(sc any) []any { return shrinkJoin(sc.(*JoinSc)) },
		})
	}
}

func genJoin(engine, prop string, r *simrt.SplitMix) *JoinSc {
	sc := &JoinSc{Engine: engine, Class: "normal"}

	sc.JoinSize = pick(r, 1, 2, 3, 3, 4, 5, 8)
	if scale > 1 && r.Intn(4) == 0 {
		sc.JoinSize = pick(r, 13, 16, 31)
	}
	sc.NoCopy = r.Intn(2) == 0
	sc.Inacc = uint(pick(r, 0, 1, 5, 10, 25, 25, 33, 50, 51, 100))

	if r.Intn(6) == 0 {
		sc.Inacc = uint(between(r, 1, 100))
	}

	sc.InCap = pick(r, 0, 0, 1, sc.JoinSize, 2*sc.JoinSize, 3*sc.JoinSize, between(r, 0, 3*sc.JoinSize))
	sc.RelCap = r.Intn(2)

	div := sc.divider()

	withTimeout := r.Intn(3) != 0

	switch prop {
	case "C10":
		withTimeout = true
		sc.Class = "eager"
	case "C16":
		sc.Class = "stop"
	case "C19", "C20":
		if engine == "join1" && r.Intn(2) == 0 {
			sc.Class = "stop"
		}
	case "C08":
		// v1: Stop/cancel landing between delivery and release
		if engine == "join1" && r.Intn(2) == 0 {
			sc.Class = "stop"
			sc.NoCopy = true
		}
	}

	if !withTimeout && r.Intn(3) == 0 {
		// "a zero or negative value means that discipline will wait ... until the channel is closed"
		sc.Timeout = -int64(pick(r, 1, 100, 1_000_000_000))
	}

	if withTimeout {
		if engine == "join1" {
			base := 10_000_000 * div // the smallest timeout v1 accepts for this inaccuracy
			sc.Timeout = pick(r, base, base+1, base+div-1, 2*base, 3*base+7, 1_000_000_000*div)
		} else {
			sc.Timeout = pick(r, div, div+1, 2*div-1, 2*div, 3*div+1, 10*div, 1000+div, 1_000_000+div, 1_000_000_000)
		}
	}

	// producer
	n := between(r, 0, (6*sc.JoinSize+3)*scale) // total elements (join) / total slices (unite)
	if r.Intn(10) == 0 {
		n = 0
	}

	// thorough tier only (the guard comes first, so the quick tier draws exactly what it drew
	// before): long histories - state that builds up over tens of output slices (recycled
	// buffers, blocks that copies are carved from, counters that wrap)
	if scale > 1 && (prop == "C03" || prop == "C09" || prop == "C08" || prop == "C11") && r.Intn(8) == 0 {
		n = between(r, 30*sc.JoinSize, 80*sc.JoinSize+7)
	}

	unit := sc.Timeout
	if unit <= 0 {
		// without a timeout nothing in the discipline ticks, so pauses of any length cost
		// nothing: some runs stay silent for milliseconds or seconds between elements
		unit = int64(pick(r, 1, 10, 1000, 1000, 1_000_000, 50_000_000, 1_000_000_000))
	}

	iv := sc.interval()
	if iv == 0 {
		iv = 1
	}

	// many of these land exactly on a tick of the discipline's ticker (multiples of iv)
	delays := []int64{0, 0, 0, 1, unit / 4, unit / 2, unit - 1, unit, unit + 1, unit + iv, unit + iv + 1, 2 * unit, 3*unit + iv/2, iv, 2 * iv, unit - iv}

	// the number of ticker wake-ups is what a run costs: bound the total pause
	budget := 1200 * iv * int64(scale)
	if sc.Timeout <= 0 {
		budget = 1200 * unit
	}

	pattern := r.Intn(4) // 0 bursts, 1 trickle, 2 one then silence, 3 random

	for left := n; left > 0; {
		var b JBurst

		switch pattern {
		case 0:
			b.Delay = pick(r, delays...)
			k := between(r, 1, 2*sc.JoinSize+1)
			b.Lens = make([]int, min(k, left))
		case 1:
			b.Delay = pick(r, unit/int64(sc.JoinSize+1), unit/2, unit-1, unit/3+1)
			b.Lens = make([]int, 1)
		case 2:
			if len(sc.Bursts) == 0 {
				b.Lens = make([]int, 1)
			} else {
				b.Delay = pick(r, 2*unit, 3*unit+1, unit+iv+1)
				b.Lens = make([]int, min(left, between(r, 1, sc.JoinSize)))
			}
		default:
			b.Delay = pick(r, delays...)
			b.Lens = make([]int, min(left, between(r, 1, sc.JoinSize+2)))
		}

		if b.Delay < 0 {
			b.Delay = 0
		}

		if b.Delay > budget {
			b.Delay = budget
		}

		budget -= b.Delay
		left -= len(b.Lens)

		if engine == "unite2" {
			for i := range b.Lens {
				b.Lens[i] = pick(r, 0, -1, 1, 1, 2, sc.JoinSize-1, sc.JoinSize, sc.JoinSize+1, 2*sc.JoinSize+1, between(r, 0, sc.JoinSize))
				if b.Lens[i] < -1 {
					b.Lens[i] = 0
				}

				// now and then a slice many times longer than JoinSize (its length is unbounded)
				if r.Intn(12) == 0 {
					b.Lens[i] = pick(r, 3*sc.JoinSize, 33*sc.JoinSize, between(r, 3*sc.JoinSize, 70*sc.JoinSize), 64*sc.JoinSize+1, 1000)
				}

				// C08 only (elements are no longer unique): send an oversize slice object twice
				// (copy mode only: in no-copy mode the slice becomes the consumer's)
				if prop == "C08" && !sc.NoCopy && r.Intn(6) == 0 {
					b.Lens[i] = -2
				}
			}
		}

		sc.Bursts = append(sc.Bursts, b)
	}

	if r.Intn(2) == 0 {
		sc.CloseDly = pick(r, delays...)
		if sc.CloseDly < 0 || sc.CloseDly > budget {
			sc.CloseDly = 0
		}
	}

	if engine == "unite2" && prop != "C16" && r.Intn(30) == 0 {
		// a very large JoinSize with a few very large slices (buffer growth, preallocation)
		sc.JoinSize = pick(r, 70_000, 100_000, 1<<17+1)
		sc.Bursts = nil

		for k := between(r, 2, 7); k > 0; k-- {
			sc.Bursts = append(sc.Bursts, JBurst{Delay: int64(pick(r, 0, 0, 1)), Lens: []int{pick(r, sc.JoinSize/3, sc.JoinSize/2+1, sc.JoinSize-1, 30_000, 1, sc.JoinSize, sc.JoinSize+1)}})
		}

		sc.InCap = pick(r, 0, 1, 3)
	}

	// consumer
	if sc.Class != "eager" {
		switch r.Intn(4) {
		case 0:
		case 1:
			for i := between(r, 1, 3); i > 0; i-- {
				sc.Cons = append(sc.Cons, JCons{Read: pick(r, 0, 1, unit/2, unit, unit+iv+1), Hold: pick(r, 0, 0, 1, unit/2, unit, 2*unit+1)})
			}
		case 2:
			sc.StallAt = between(r, 1, 4)
			sc.StallFor = pick(r, unit, 2*unit+1, 5*unit)
		default:
			sc.Cons = []JCons{{Hold: pick(r, 1, unit, 3*unit)}}
			sc.StallAt = between(r, 1, 3)
			sc.StallFor = pick(r, unit-1, 2*unit)
		}

		if sc.StallFor > 1200*iv {
			sc.StallFor = 1200 * iv
		}

		// the consumer owns a delivered slice (copy mode: for good; no-copy: until it
		// releases it) and may write into it
		sc.Scribble = r.Intn(2) == 0
	}

	if sc.Class == "stop" {
		st := &JStop{Cancel: r.Intn(2) == 0}
		st.ThenStop = st.Cancel && r.Intn(2) == 0
		st.Second = r.Intn(4) == 0
		st.NoClose = r.Intn(3) == 0

		if r.Intn(2) == 0 {
			st.AtStep = int64(between(r, 1, 60+8*n))
		} else {
			st.AtNs = pick(r, 0, 1, unit/2, unit, unit+iv, 2*unit+1, int64(r.Intn(int(min64(3*unit+2, 1<<30)))))
		}

		mode := r.Intn(4)
		if prop == "C08" {
			mode = pick(r, 0, 0, 2)

			if mode == 2 {
				sc.Cons = []JCons{{Hold: pick(r, unit, 2*unit, 5*unit+1)}}
			}
		}

		switch mode {
		case 0:
			st.NeverRel = true
			sc.NoCopy = true
		case 1:
			st.StopReader = true
			if sc.StallAt == 0 {
				sc.StallAt = between(r, 1, 3)
			}
		}

		if st.NoClose && r.Intn(2) == 0 {
			// land while the discipline is idle: after the producer has gone quiet
			var total int64
			for _, b := range sc.Bursts {
				total += b.Delay
			}

			st.AtStep = 0
			st.AtNs = total + pick(r, 1, unit/2, unit+iv+1, 2*unit+1, 3*unit+iv)
		}

		sc.Stop = st
	}

	sc.Horizon = joinHorizon(sc)

	if prop == "C10" && sc.Timeout > 0 && r.Intn(3) == 0 {
		iv := sc.interval()
		sc.Stalls = []int64{1, 2, iv/2 + 1, iv + 1, sc.Timeout/3 + 1}
		sc.Horizon += 4 * 4 * (sc.Timeout + iv + 2)
	}

	if (prop == "C03" || prop == "C09" || prop == "C08" || prop == "C11") && sc.Timeout <= 0 && sc.Stop == nil && r.Intn(8) == 0 {
		// a timeout of centuries: indistinguishable from none within any run; the scenario
		// (pauses, horizon) stays the one drawn for "no timeout"
		sc.Timeout = pick(r, int64(math.MaxInt64), math.MaxInt64-1, 1<<62, 1<<61+7, 4_000_000_000_000_000_000)
	}

	return sc
}

func joinHorizon(sc *JoinSc) int64 {
	to := max(sc.Timeout, 0)
	if to > 1<<50 {
		to = 0 // "centuries": never expires within a run
	}

	t := 4*to + sc.StallFor + sc.CloseDly

	slices := 1

	for _, b := range sc.Bursts {
		t += b.Delay
		slices += len(b.Lens)
	}

	var cmax int64
	for _, c := range sc.Cons {
		cmax = max(cmax, c.Read+c.Hold)
	}

	t += cmax * int64(slices)

	if sc.Stop != nil {
		t += sc.Stop.AtNs

		if sc.Stop.AtStep > 0 {
			t += 5000 // a step wait in a silent system is released after 5 us
		}
	}

	return 4*t + 10_000
}

// touch reads a slice the way a consumer would, in ordinary (race-instrumented) code:
// simrt's own reads for the history are invisible to the race detector.
//
//go:noinline
func touch(sl []int) {
	sum := 0
	for _, x := range sl {
		sum += x
	}

	simrt.AddVar(63, int64(sum)) // keeps the reads alive without sharing a plain variable
}

type joinHandle struct {
	out     <-chan []int
	release func(done <-chan struct{}) bool
	stop    func()
	cancel  func()
}

func buildJoin(sc *JoinSc) (simrt.Config, func()) {
	cfg := simrt.Config{MaxSteps: 400_000, Horizon: time.Duration(sc.Horizon)}

	for _, d := range sc.Stalls {
		cfg.StallDurs = append(cfg.StallDurs, time.Duration(d))
	}

	if len(sc.Stalls) > 0 {
		cfg.StallPer1024, cfg.MaxStalls = 48, 4
	}

	main := func() {
		var (
			h       joinHandle
			sendOne func(id *int, n int) // write one producer unit
			closeIn func()
		)

		ctlDone := make(chan struct{}) // closed by the controller once stop/cancel has been issued and (if called) Stop returned

		switch sc.Engine {
		case "join2":
			in := make(chan int, sc.InCap)
			simrt.NameRecv(in, "input")

			dsc, err := join2.New(join2.Opts[int]{Input: in, JoinSize: uint(sc.JoinSize), NoCopy: sc.NoCopy, Timeout: time.Duration(sc.Timeout), TimeoutInaccuracy: sc.Inacc})
			if err != nil {
				simrt.Note("new-error", 0, 0)
				return
			}

			h.out = dsc.Output()
			h.release = func(<-chan struct{}) bool { dsc.Release(); return true }
			sendOne = func(id *int, _ int) { simrt.Send("env:producer", in, *id); *id++ }
			closeIn = func() { simrt.Close("env:producer", in) }
		case "unite2":
			in := make(chan []int, sc.InCap)
			simrt.NameRecv(in, "input")

			dsc, err := unite.New(unite.Opts[int]{Input: in, JoinSize: uint(sc.JoinSize), NoCopy: sc.NoCopy, Timeout: time.Duration(sc.Timeout), TimeoutInaccuracy: sc.Inacc})
			if err != nil {
				simrt.Note("new-error", 0, 0)
				return
			}

			h.out = dsc.Output()
			h.release = func(<-chan struct{}) bool { dsc.Release(); return true }
			var lastBig []int // the last input slice of at least JoinSize elements

			sendOne = func(id *int, n int) {
				var sl []int // n == -1: a nil slice, which is a legal empty input slice too

				if n == -2 {
					// the producer hands over the very same (read-only) slice object again
					if lastBig != nil && !sc.NoCopy {
						simrt.Send("env:producer", in, lastBig)
						return
					}

					n = sc.JoinSize
				}

				if n >= 0 {
					sl = make([]int, n)
				}

				for i := range sl {
					sl[i] = *id
					*id++
				}

				if n >= sc.JoinSize {
					lastBig = sl
				}

				simrt.Send("env:producer", in, sl)
			}
			closeIn = func() { simrt.Close("env:producer", in) }
		case "join1":
			in := make(chan int, sc.InCap)
			simrt.NameRecv(in, "input")

			ctx, cancel := context.WithCancel(context.Background())

			var released chan struct{}
			if sc.NoCopy {
				released = make(chan struct{}, sc.RelCap)
			}

			// without a cancel in the script the caller may just as well pass no context
			var optCtx context.Context = ctx
			if (sc.Stop == nil || !sc.Stop.Cancel) && sc.JoinSize%2 == 0 {
				optCtx = nil
			}

			dsc, err := join1.New(join1.Opts[int]{Ctx: optCtx, Input: in, JoinSize: uint(sc.JoinSize), Released: released, Timeout: time.Duration(sc.Timeout), TimeoutInaccuracy: sc.Inacc})
			if err != nil {
				simrt.Note("new-error", 0, 0)
				cancel()

				return
			}

			h.out = dsc.Output()
			h.release = func(done <-chan struct{}) bool { return simrt.SendOr("env:consumer", released, struct{}{}, done) }
			h.stop = dsc.Stop
			h.cancel = cancel
			sendOne = func(id *int, _ int) {
				if !simrt.SendOr("env:producer", in, *id, ctlDone) {
					simrt.Note("write-abandoned", int64(*id), 0)
				}

				*id++
			}
			closeIn = func() { simrt.Close("env:producer", in) }
		}

		simrt.NameRecv(h.out, "output")
		simrt.Note("new", 0, 0)

		simrt.GoEnv("producer", func() {
			id := 1

			for _, b := range sc.Bursts {
				if sc.Stop != nil {
					if !simrt.SleepOr("env:producer", ns(b.Delay), ctlDone) {
						break
					}
				} else {
					simrt.Sleep("env:producer", ns(b.Delay))
				}

				for _, n := range b.Lens {
					sendOne(&id, n)
				}
			}

			if sc.Stop != nil && sc.Stop.NoClose {
				return // a producer that simply stops writing: only Stop/cancel can end the discipline
			}

			if sc.Stop != nil {
				simrt.SleepOr("env:producer", ns(sc.CloseDly), ctlDone)
			} else {
				simrt.Sleep("env:producer", ns(sc.CloseDly))
			}

			closeIn()
		})

		simrt.GoEnv("consumer", func() { joinConsumer(sc, h, ctlDone) })

		if sc.Stop != nil {
			simrt.GoEnv("controller", func() {
				st := sc.Stop

				if st.AtStep > 0 {
					simrt.WaitStep(st.AtStep)
				} else {
					simrt.Sleep("env:controller", ns(st.AtNs))
				}

				if st.Second {
					simrt.GoEnv("stop2", func() {
						simrt.Note("stop2-call", 0, 0)
						h.stop()
						simrt.Note("stop2-returned", 0, 0)
					})
				}

				if st.Cancel {
					simrt.Note("cancel", 0, 0)
					h.cancel()

					if st.ThenStop {
						simrt.Note("stop-call", 0, 0)
						h.stop()
						simrt.Note("stop-returned", 0, 0)
					}
				} else {
					simrt.Note("stop-call", 0, 0)
					h.stop()
					simrt.Note("stop-returned", 0, 0)
				}

				simrt.Close("env:controller", ctlDone)
			})
		}
	}

	return cfg, main
}

func joinConsumer(sc *JoinSc, h joinHandle, ctlDone <-chan struct{}) {
	type kept struct {
		k  int
		sl []int
	}

	var keep []kept

	finish := func() {
		for _, kp := range keep {
			touch(kp.sl)
			simrt.NoteSlice("final", int64(kp.k), kp.sl)
		}
	}

	for k := 1; ; k++ {
		if k == sc.StallAt {
			if sc.Stop != nil && sc.Stop.StopReader {
				// stop reading for good; wait for the controller, then drain
				simrt.Recv("env:consumer", ctlDone)
			} else {
				simrt.Sleep("env:consumer", ns(sc.StallFor))
			}
		}

		var c JCons
		if len(sc.Cons) > 0 {
			c = sc.Cons[k%len(sc.Cons)]
		}

		simrt.Sleep("env:consumer", ns(c.Read))

		sl, ok := simrt.Recv2("env:consumer", h.out)
		if !ok {
			simrt.Note("out-closed", 0, 0)
			finish()

			return
		}

		touch(sl)
		simrt.NoteSlice("got", int64(k), sl)

		if !sc.NoCopy {
			if sc.Scribble {
				for i := range sl {
					sl[i] = -(k*1000 + i)
				}

				// also use the spare capacity the consumer now owns
				if cap(sl) > len(sl) {
					ext := sl[:cap(sl)]
					for i := len(sl); i < len(ext); i++ {
						ext[i] = -(k*1000 + i)
					}
				}

				simrt.NoteSlice("scribbled", int64(k), sl)
			}

			keep = append(keep, kept{k, sl})

			continue
		}

		// no-copy: the slice is ours until we signal the release
		if sc.Scribble {
			for i := range sl {
				sl[i] = -(k*1000 + i)
			}

			simrt.NoteSlice("scribbled", int64(k), sl)
		}

		if sc.Stop != nil && sc.Stop.NeverRel {
			keep = append(keep, kept{k, sl})
			simrt.Note("release-withheld", int64(k), 0)

			continue
		}

		if sc.Stop != nil {
			simrt.SleepOr("env:consumer", ns(c.Hold), ctlDone)
		} else {
			simrt.Sleep("env:consumer", ns(c.Hold))
		}

		touch(sl)
		simrt.NoteSlice("before-release", int64(k), sl)
		simrt.Note("release", int64(k), 0)

		if !h.release(ctlDone) {
			simrt.Note("release-abandoned", int64(k), 0)
			keep = append(keep, kept{k, sl})

			continue
		}

		simrt.Note("released", int64(k), 0)
	}
}

// ---------------------------------------------------------------------------------
// oracles

type joinView struct {
	t0        int64
	written   [][]int       // producer units in order (join: single elements)
	recvT     map[int]int64 // element -> time the discipline accepted it
	sends     []simrt.Rec   // discipline's writes to the output, in order
	gots      []simrt.Rec   // consumer's deliveries
	inClosed  int64
	outClosed int64
	outCloses int
	stopCall  int64
	stopRet   int64
	cancelSeq int64
}

func viewJoin(sc *JoinSc, res *simrt.Result) joinView {
	v := joinView{recvT: map[int]int64{}, inClosed: -1, outClosed: -1, stopCall: -1, stopRet: -1, cancelSeq: -1}

	for _, r := range res.Hist {
		switch {
		case r.Kind == simrt.KNote && r.Note == "new":
			v.t0 = r.T
		case r.Kind == simrt.KSend && !r.Lib && r.ChName == "input":
			if sc.Engine == "unite2" {
				v.written = append(v.written, r.Slice)
			} else {
				v.written = append(v.written, []int{int(r.Val)})
			}
		case r.Kind == simrt.KRecv && r.Lib && r.ChName == "input" && r.Ok:
			if sc.Engine == "unite2" {
				for _, e := range r.Slice {
					v.recvT[e] = r.T
				}
			} else {
				v.recvT[int(r.Val)] = r.T
			}
		case r.Kind == simrt.KClose && r.ChName == "input":
			v.inClosed = r.Seq
		case r.Kind == simrt.KSend && r.Lib && r.ChName == "output":
			v.sends = append(v.sends, r)
		case r.Kind == simrt.KClose && r.ChName == "output":
			v.outClosed = r.Seq
			v.outCloses++
		case r.Kind == simrt.KNote && r.Note == "got":
			v.gots = append(v.gots, r)
		case r.Kind == simrt.KNote && r.Note == "stop-call":
			v.stopCall = r.Seq
		case r.Kind == simrt.KNote && r.Note == "stop-returned":
			v.stopRet = r.Seq
		case r.Kind == simrt.KNote && r.Note == "cancel":
			v.cancelSeq = r.Seq
		}
	}

	return v
}

func flat(sls [][]int) []int {
	var out []int
	for _, s := range sls {
		out = append(out, s...)
	}

	return out
}

func equalInts(a, b []int) bool {
	if len(a) != len(b) {
		return false
	}

	for i := range a {
		if a[i] != b[i] {
			return false
		}
	}

	return true
}

func checkJoin(prop string, sc *JoinSc, res *simrt.Result) Verdict {
	var v Verdict

	h := hist(res.Hist)

	if _, bad := h.firstNote("new-error"); bad {
		v.Skipped = "constructor rejected the configuration"
		return v
	}

	jv := viewJoin(sc, res)

	// fault / probe accounting shared by all join properties
	if sc.StallAt > 0 {
		v.fault("consumer-stall")
	}

	if sc.Scribble {
		v.fault("consumer-overwrites-kept-slice")
	}

	for _, c := range sc.Cons {
		if c.Hold > 0 && sc.NoCopy {
			v.fault("release-delayed")
			break
		}
	}

	if sc.Stop != nil {
		if sc.Stop.Cancel {
			v.fault("context-cancel")
		} else {
			v.fault("stop")
		}

		if sc.Stop.NeverRel {
			v.fault("release-withheld")
		}
	}

	for _, st := range res.Sites {
		if st.Blocked > 0 && (st.Site == "lib:v2/join/join.go:198" || st.Site == "lib:v2/join/unite/unite.go:222" || st.Site == "lib:join/join.go:228") {
			v.probe("discipline-blocked-on-full-output")
		}

		if len(st.Cases) > 1 && st.Cases[1] > 0 && (st.Site == "lib:v2/join/join.go:147" || st.Site == "lib:v2/join/unite/unite.go:152") {
			v.probe("ticker-fired")
		}
	}

	normalEnd := sc.Stop == nil

	switch prop {
	case "C03":
		checkJoinConcat(&v, sc, jv, res, normalEnd)
	case "C08":
		checkJoinOwnership(&v, sc, jv, res)
	case "C09":
		checkJoinCut(&v, sc, jv, res)
	case "C10":
		checkJoinFlush(&v, sc, jv, res)
	case "C11":
		checkUniteNoSplit(&v, sc, jv, res)
	case "C16":
		checkJoinStop(&v, sc, jv, res)
	case "C19":
		if jv.stopRet >= 0 {
			checkGoroutines(&v, res, jv.stopRet, "Stop returned", true)
		} else {
			checkGoroutines(&v, res, jv.outClosed, "output closed", false)
		}

		if normalEnd && !res.AllDone && jv.inClosed >= 0 && len(v.Viol) == 0 && jv.outClosed < 0 {
			// input closed, consumer reading, and the discipline never terminated
			v.fail("no-termination", "input closed but the discipline did not terminate within %dns (%s)", sc.Horizon, stuck(res))
		}
	}

	return v
}

// C03: concatenation of the output equals the input.
func checkJoinConcat(v *Verdict, sc *JoinSc, jv joinView, res *simrt.Result, normalEnd bool) {
	if !normalEnd {
		return
	}

	want := flat(jv.written)

	var got []int

	lens := map[int]bool{}
	for _, w := range jv.written {
		lens[len(w)] = true
	}

	for i, g := range jv.gots {
		if len(g.Slice) == 0 {
			v.fail("empty-slice", "output slice #%d is empty", i+1)
			return
		}

		if sc.Engine != "unite2" && len(g.Slice) > sc.JoinSize {
			v.fail("oversize-slice", "output slice #%d has %d elements, JoinSize is %d", i+1, len(g.Slice), sc.JoinSize)
			return
		}

		if sc.Engine == "unite2" && len(g.Slice) > sc.JoinSize {
			// must be exactly one input slice that was itself at least JoinSize long
			ok := false

			for _, w := range jv.written {
				if len(w) >= sc.JoinSize && equalInts(w, g.Slice) {
					ok = true
					break
				}
			}

			if !ok {
				v.fail("oversize-slice", "output slice #%d %v exceeds JoinSize %d but is not a single input slice", i+1, g.Slice, sc.JoinSize)
				return
			}

			v.probe("oversize-input-forwarded")
		}

		got = append(got, g.Slice...)
	}

	if !res.AllDone {
		if jv.inClosed >= 0 && jv.outClosed < 0 {
			v.fail("loss-no-close", "input closed after %d elements, output delivered %d and did not close within %dns (%s)", len(want), len(got), sc.Horizon, stuck(res))
		} else {
			v.Inconclusive = "run did not end: " + stuck(res)
		}

		return
	}

	if !equalInts(got, want) {
		v.fail("concat-mismatch", "input elements %v, concatenated output %v", want, got)
	}

	if jv.outCloses > 1 {
		v.fail("double-close", "output closed %d times", jv.outCloses)
	}

	if len(want) == 0 {
		v.probe("empty-input")
	}
}

// C08: a delivered slice is not modified while the consumer owns it.
func checkJoinOwnership(v *Verdict, sc *JoinSc, jv joinView, res *simrt.Result) {
	h := hist(res.Hist)

	delivered := map[int64]simrt.Rec{}
	for _, g := range jv.gots {
		delivered[g.Val] = g
	}

	// what the input said each delivered slice must contain (aliasing between a kept
	// slice and the accumulation buffer shows up as wrong content of a later delivery)
	want := flat(jv.written)
	pos := 0

	for i, g := range jv.gots {
		if pos+len(g.Slice) > len(want) || !equalInts(want[pos:pos+len(g.Slice)], g.Slice) {
			if sc.Stop == nil {
				v.fail("delivery-corrupted", "output slice #%d is %v at delivery; the input at this position is %v", i+1, g.Slice, want[pos:min(len(want), pos+len(g.Slice))])
				return
			}

			break
		}

		pos += len(g.Slice)
	}

	if !sc.NoCopy {
		// copy mode: no two deliveries share memory ...
		for i := 0; i < len(jv.gots); i++ {
			a := jv.gots[i]
			if a.Cap == 0 {
				continue
			}

			for j := i + 1; j < len(jv.gots); j++ {
				b := jv.gots[j]
				if b.Cap == 0 {
					continue
				}

				aEnd, bEnd := a.Ptr+uintptr(a.Cap)*8, b.Ptr+uintptr(b.Cap)*8
				if a.Ptr < bEnd && b.Ptr < aEnd {
					v.fail("copy-shares-memory", "output slices #%d and #%d overlap in memory (copy mode)", i+1, j+1)
					return
				}
			}
		}

		// ... and what the consumer keeps stays the consumer's
		expect := map[int64][]int{}
		for _, g := range jv.gots {
			expect[g.Val] = g.Slice
		}

		for _, s := range h.notes("scribbled") {
			expect[s.Val] = s.Slice
		}

		finals := h.notes("final")
		for _, f := range finals {
			if !equalInts(f.Slice, expect[f.Val]) {
				v.fail("kept-slice-modified", "copy mode: slice #%d kept by the consumer was %v, later found as %v", f.Val, expect[f.Val], f.Slice)
				return
			}
		}

		if len(finals) > 1 {
			v.probe("several-slices-retained")
		}

		return
	}

	// no-copy: the slice holds what the consumer last saw or wrote, from delivery until the
	// release is signalled ...
	expect := map[int64][]int{}
	for _, g := range jv.gots {
		expect[g.Val] = g.Slice
	}

	for _, sn := range h.notes("scribbled") {
		expect[sn.Val] = sn.Slice
	}

	for _, br := range h.notes("before-release") {
		g := delivered[br.Val]
		if !equalInts(expect[br.Val], br.Slice) {
			v.fail("unreleased-slice-modified", "no-copy: slice #%d held %v while the consumer owned it and reads %v just before the consumer released it", br.Val, expect[br.Val], br.Slice)
			return
		}

		if br.T > g.T {
			v.probe("slice-retained-for-simulated-time")
		}
	}

	// ... and nothing more is produced before that
	rel := map[int64]int64{}
	for _, r := range h.notes("release") {
		rel[r.Val] = r.Seq
	}

	for k := 1; k < len(jv.sends); k++ {
		relSeq, released := rel[int64(k)]
		if !released || jv.sends[k].Seq < relSeq {
			v.fail("output-before-release", "no-copy: output slice #%d was written (seq %d) before the consumer signalled the release of slice #%d", k+1, jv.sends[k].Seq, k)
			return
		}
	}

	// v1: stopped or cancelled before the release signal -> never touched again
	for _, f := range h.notes("final") {
		if !equalInts(expect[f.Val], f.Slice) {
			v.fail("unreleased-slice-modified-after-stop", "no-copy: slice #%d (%v while the consumer owned it) was never released, the discipline was stopped, and it later reads %v", f.Val, expect[f.Val], f.Slice)
			return
		}

		v.probe("unreleased-slice-survived-stop")
	}
}

// C09: a slice is cut short only by timeout or end of input.
func checkJoinCut(v *Verdict, sc *JoinSc, jv joinView, res *simrt.Result) {
	if sc.Stop != nil {
		return
	}

	if !res.AllDone {
		v.Inconclusive = "run did not end: " + stuck(res)
		return
	}

	// which producer unit does each element belong to, and where do output slices end
	type unit struct{ lo, hi int } // positions in the flattened input

	var units []unit

	p := 0
	for _, w := range jv.written {
		if len(w) > 0 {
			units = append(units, unit{p, p + len(w)})
		}

		p += len(w)
	}

	nextUnitLen := func(end int) int {
		for _, u := range units {
			if u.lo >= end {
				return u.hi - u.lo
			}
		}

		return -1
	}

	end := 0
	prevT := jv.t0

	for i, s := range jv.sends {
		end += len(s.Slice)
		final := i == len(jv.sends)-1

		maximal := len(s.Slice) >= sc.JoinSize
		if sc.Engine == "unite2" && !maximal {
			if nl := nextUnitLen(end); nl >= 0 && len(s.Slice)+nl > sc.JoinSize {
				maximal = true
			}
		}

		if !maximal && !final {
			if sc.Timeout <= 0 {
				v.fail("short-slice-without-timeout", "no timeout configured, output slice #%d has %d elements (JoinSize %d) and is neither maximal nor the last one", i+1, len(s.Slice), sc.JoinSize)
				return
			}

			if s.T-prevT < sc.Timeout {
				v.fail("short-slice-before-timeout", "output slice #%d (%d elements, JoinSize %d) was written %dns after the previous one (or creation); Timeout is %dns", i+1, len(s.Slice), sc.JoinSize, s.T-prevT, sc.Timeout)
				return
			}

			v.probe("slice-cut-by-timeout")
		}

		if !maximal && final && len(jv.sends) > 0 {
			v.probe("slice-cut-by-end-of-input")
		}

		prevT = s.T
	}
}

// C10: buffered elements are flushed within Timeout plus inaccuracy.
func checkJoinFlush(v *Verdict, sc *JoinSc, jv joinView, res *simrt.Result) {
	if sc.Timeout <= 0 || sc.Stop != nil {
		return
	}

	for range hist(res.Hist).notes("sim-stall") {
		v.fault("discipline-goroutine-stalled")
	}

	div := sc.divider()
	allowed := sc.Timeout + (sc.Timeout+div-1)/div

	sentAt := map[int]int64{}

	for _, s := range jv.sends {
		for _, e := range s.Slice {
			sentAt[e] = s.T
		}
	}

	endT := res.SimNanos

	for e, at := range jv.recvT {
		st, sent := sentAt[e]
		if !sent {
			if endT-at > allowed+stalledIn(res, at, endT) && !res.AllDone {
				v.fail("element-not-flushed", "element %d accepted at t=%dns was still inside the discipline at t=%dns; Timeout %dns, inaccuracy %d%% allow %dns", e, at-jv.t0, endT-jv.t0, sc.Timeout, 100/div, allowed)
				return
			}

			continue
		}

		if lat := stalledIn(res, at, st); st-at > allowed+lat {
			v.fail("flush-too-late", "element %d stayed %dns inside the discipline (accepted t=%d, written out t=%d); Timeout %dns and inaccuracy allow %dns (plus %dns of injected scheduling latency)", e, st-at, at-jv.t0, st-jv.t0, sc.Timeout, allowed, lat)
			return
		}

		if st-at >= sc.Timeout {
			v.probe("element-waited-a-full-timeout")
		}
	}

	if !res.AllDone {
		v.Inconclusive = "run did not end: " + stuck(res)
	}
}

// C11: unite never splits an input slice.
func checkUniteNoSplit(v *Verdict, sc *JoinSc, jv joinView, res *simrt.Result) {
	if sc.Engine != "unite2" {
		return
	}

	if !res.AllDone {
		if jv.inClosed >= 0 && jv.outClosed < 0 {
			v.fail("loss-no-close", "input closed, output did not close within %dns (%s)", sc.Horizon, stuck(res))
		} else {
			v.Inconclusive = "run did not end: " + stuck(res)
		}

		return
	}

	type where struct{ slice, pos int }

	loc := map[int]where{}

	// "empty input slices produce nothing": an output slice without elements can only be
	// an empty input slice passed on (or an empty flush)
	for i, g := range jv.gots {
		if len(g.Slice) == 0 {
			v.fail("empty-input-produced-output", "output slice #%d is empty", i+1)
			return
		}
	}

	for i, g := range jv.gots {
		for p, e := range g.Slice {
			if _, dup := loc[e]; dup {
				v.fail("duplicate", "element %d delivered twice", e)
				return
			}

			loc[e] = where{i, p}
		}
	}

	order := -1

	for wi, w := range jv.written {
		if len(w) == 0 {
			v.probe("empty-input-slice")
			continue
		}

		first, ok := loc[w[0]]
		if !ok {
			v.fail("input-slice-lost", "input slice #%d %v does not appear in the output", wi+1, w)
			return
		}

		for p, e := range w {
			l, ok := loc[e]
			if !ok || l.slice != first.slice || l.pos != first.pos+p {
				v.fail("input-slice-split", "input slice #%d %v is not contiguous inside one output slice (element %d)", wi+1, w, e)
				return
			}
		}

		if first.slice < order {
			v.fail("reordered", "input slice #%d appears in output slice #%d, before earlier input", wi+1, first.slice+1)
			return
		}

		order = first.slice

		if len(w) >= sc.JoinSize {
			if !equalInts(jv.gots[first.slice].Slice, w) {
				v.fail("big-slice-not-alone", "input slice #%d has %d >= JoinSize %d elements but was delivered inside %v", wi+1, len(w), sc.JoinSize, jv.gots[first.slice].Slice)
				return
			}

			v.probe("oversize-input-forwarded")
		}
	}
}

// C16 (join1): Stop/cancel always completes, output closed, delivered is a subsequence.
func checkJoinStop(v *Verdict, sc *JoinSc, jv joinView, res *simrt.Result) {
	if sc.Stop == nil || sc.Engine != "join1" {
		return
	}

	facts := map[string]any{"cancel": sc.Stop.Cancel, "never_release": sc.Stop.NeverRel, "reader_stopped": sc.Stop.StopReader}

	for _, r := range res.Hist {
		if (r.Seq == jv.stopCall || r.Seq == jv.cancelSeq) && res.HorizonHit && sc.Horizon-r.T < 1000 {
			v.probe("stop-too-close-to-the-horizon-to-judge")
			return
		}
	}

	if jv.stopCall >= 0 && jv.stopRet < 0 {
		v.failFacts("stop-not-returned", facts, "Stop() was called and did not return within %dns of simulated time (%s)", sc.Horizon, stuck(res))
		return
	}

	if jv.stopCall < 0 && jv.cancelSeq < 0 {
		// the run ended (input drained) before the controller acted
		v.probe("stop-after-termination")
	}

	hh := hist(res.Hist)

	if c, called := hh.firstNote("stop2-call"); called {
		v.probe("second-concurrent-stop")

		if _, ret := hh.firstNote("stop2-returned"); !ret {
			v.failFacts("second-stop-not-returned", facts, "a second Stop() (seq %d) did not return within %dns (%s)", c.Seq, sc.Horizon, stuck(res))
			return
		}
	}

	if jv.stopRet >= 0 && (jv.outClosed < 0 || jv.outClosed > jv.stopRet) {
		v.failFacts("output-open-after-stop", facts, "Stop() returned (seq %d) but the output was not closed by then", jv.stopRet)
		return
	}

	if jv.cancelSeq >= 0 && jv.outClosed < 0 {
		v.failFacts("cancel-no-effect", facts, "context cancelled at seq %d; the discipline had not terminated %dns later (%s)", jv.cancelSeq, sc.Horizon, stuck(res))
		return
	}

	if alive := libTasksAlive(res); len(alive) > 0 {
		v.failFacts("goroutine-left-after-stop", facts, "%v", alive)
		return
	}

	// whatever was delivered is an in-order, duplicate-free subsequence of what was written
	want := flat(jv.written)
	wi := 0

	for _, g := range jv.gots {
		for _, e := range g.Slice {
			for wi < len(want) && want[wi] != e {
				wi++
			}

			if wi == len(want) {
				v.failFacts("not-a-subsequence", facts, "delivered element %d is not an in-order, duplicate-free continuation of the written elements %v", e, want)
				return
			}

			wi++
		}
	}

	if jv.stopRet >= 0 {
		for _, s := range jv.sends {
			if s.Seq > jv.stopRet {
				v.failFacts("output-after-stop", facts, "slice %v written to the output after Stop() returned", s.Slice)
				return
			}
		}
	}

	if jv.stopCall >= 0 || jv.cancelSeq >= 0 {
		at := jv.stopCall
		if at < 0 {
			at = jv.cancelSeq
		}

		// what state was the discipline in when the stop landed
		for _, t := range res.Tasks {
			_ = t
		}

		if len(jv.sends) > 0 && len(jv.gots) < len(jv.sends) {
			v.probe("stop-with-undelivered-output")
		}

		if sc.Stop.NeverRel && len(jv.gots) > 0 {
			v.probe("stop-while-waiting-for-release")
		}

		if len(jv.gots) == 0 {
			v.probe("stop-before-any-delivery")
		}

		_ = at
	}
}

func shrinkJoin(sc *JoinSc) []any {
	var out []any

	add := func(f func(c *JoinSc)) {
		c := cloneJSON(*sc)
		f(&c)
		c.Horizon = joinHorizon(&c)
		out = append(out, &c)
	}

	for i := range sc.Bursts {
		i := i
		add(func(c *JoinSc) { c.Bursts = append(c.Bursts[:i:i], c.Bursts[i+1:]...) })

		if len(sc.Bursts[i].Lens) > 1 {
			add(func(c *JoinSc) { c.Bursts[i].Lens = c.Bursts[i].Lens[:len(c.Bursts[i].Lens)/2] })
			add(func(c *JoinSc) { c.Bursts[i].Lens = c.Bursts[i].Lens[1:] })
		}

		if sc.Bursts[i].Delay > 0 {
			add(func(c *JoinSc) { c.Bursts[i].Delay = 0 })
			add(func(c *JoinSc) { c.Bursts[i].Delay /= 2 })
			add(func(c *JoinSc) { c.Bursts[i].Delay-- })
		}

		for j := range sc.Bursts[i].Lens {
			j := j
			if sc.Bursts[i].Lens[j] > 1 {
				add(func(c *JoinSc) { c.Bursts[i].Lens[j]-- })
			}

			if sc.Bursts[i].Lens[j] == -1 && sc.Engine != "unite2" {
				add(func(c *JoinSc) { c.Bursts[i].Lens[j] = 0 })
			}
		}
	}

	if len(sc.Cons) > 0 {
		add(func(c *JoinSc) { c.Cons = nil })
	}

	if sc.CloseDly > 0 {
		add(func(c *JoinSc) { c.CloseDly = 0 })
	}

	if sc.StallAt > 0 && (sc.Stop == nil || !sc.Stop.StopReader) {
		add(func(c *JoinSc) { c.StallAt = 0; c.StallFor = 0 })
	}

	if sc.Scribble {
		add(func(c *JoinSc) { c.Scribble = false })
	}

	if sc.InCap > 0 {
		add(func(c *JoinSc) { c.InCap = 0 })
		add(func(c *JoinSc) { c.InCap-- })
	}

	if sc.JoinSize > 1 {
		add(func(c *JoinSc) { c.JoinSize-- })
	}

	if sc.Stop != nil {
		if sc.Stop.NoClose {
			add(func(c *JoinSc) { c.Stop.NoClose = false })
		}

		if sc.Stop.AtStep > 1 {
			add(func(c *JoinSc) { c.Stop.AtStep /= 2 })
			add(func(c *JoinSc) { c.Stop.AtStep-- })
		}

		if sc.Stop.AtNs > 0 {
			add(func(c *JoinSc) { c.Stop.AtNs /= 2 })
		}

		if sc.Stop.ThenStop {
			add(func(c *JoinSc) { c.Stop.ThenStop = false })
		}
	}

	return out
}

var _ = fmt.Sprintf
