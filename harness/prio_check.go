package harness

import (
	"fmt"
	"sort"
	"strings"

	"verif/simrt"
)

type prioView struct {
	sc  *PrioSc
	res *simrt.Result

	newSeq int64
	newErr int64 // -1: constructor succeeded

	written  [][]int       // per input: items whose write completed, in order
	inClosed []int64       // per input: seq of the close (-1: open)
	sendSeq  map[int]int64 // item -> seq of the discipline's write to the output
	sendOrd  []pitem       // discipline's writes to the output, in order
	gotSeq   map[int]int64 // item -> seq of the handler's receive (plain) / Handle entry (simple)
	gotList  []int         // every handler receive / Handle entry, in order (duplicates visible)
	relSeq   map[int]int64 // item -> seq of the release being issued (plain) / Handle exit (simple)
	prioOf   map[int]uint  // item -> tag it was delivered with
	libRecv  []libRecv     // discipline's receives from input channels

	outClosed, errClosed int64
	errVals              []int64

	stopCall, stopRet, cancelSeq, gracefulCall, gracefulRet, autoall, faultSeq int64

	marks    []simrt.Rec
	divCalls []simrt.Rec
	adds     []ctlOp
	removes  []ctlOp
}

type libRecv struct {
	input int
	item  int
	ok    bool
	seq   int64
}

type ctlOp struct {
	input     int
	prio      uint
	call, ret int64
}

func inputOf(item int) int { return item/100_000 - 1 }

func viewPrio(sc *PrioSc, res *simrt.Result) *prioView {
	v := &prioView{
		sc: sc, res: res, newSeq: -1, newErr: -1,
		written: make([][]int, len(sc.Inputs)), inClosed: make([]int64, len(sc.Inputs)),
		sendSeq: map[int]int64{}, gotSeq: map[int]int64{}, relSeq: map[int]int64{}, prioOf: map[int]uint{},
		outClosed: -1, errClosed: -1, stopCall: -1, stopRet: -1, cancelSeq: -1, gracefulCall: -1, gracefulRet: -1, autoall: -1, faultSeq: -1,
	}

	for i := range v.inClosed {
		v.inClosed[i] = -1
	}

	inIdx := func(name string) int {
		var i int
		if _, err := fmt.Sscanf(name, "in[%d]", &i); err != nil {
			return -1
		}

		return i
	}

	for _, r := range res.Hist {
		switch r.Kind {
		case simrt.KSend:
			if i := inIdx(r.ChName); i >= 0 && !r.Lib {
				v.written[i] = append(v.written[i], int(r.Val))
			}

			if r.Lib && r.ChName == "output" {
				v.sendSeq[int(r.Val)] = r.Seq
				v.sendOrd = append(v.sendOrd, pitem{int(r.Val), uint(r.Aux)})
				v.prioOf[int(r.Val)] = uint(r.Aux)
			}
		case simrt.KRecv:
			if i := inIdx(r.ChName); i >= 0 && r.Lib {
				v.libRecv = append(v.libRecv, libRecv{i, int(r.Val), r.Ok, r.Seq})
			}
		case simrt.KClose:
			if i := inIdx(r.ChName); i >= 0 {
				v.inClosed[i] = r.Seq
			}

			if r.Lib && r.ChName == "output" {
				v.outClosed = r.Seq
			}

			if r.Lib && r.ChName == "err" {
				v.errClosed = r.Seq
			}
		case simrt.KNote:
			switch {
			case r.Note == "new":
				v.newSeq = r.Seq
			case r.Note == "new-error":
				v.newErr = r.Val
			case r.Note == "got" || r.Note == "handle-enter":
				v.gotSeq[int(r.Val)] = r.Seq
				v.gotList = append(v.gotList, int(r.Val))
				if r.Note == "got" {
					v.prioOf[int(r.Val)] = uint(r.Aux)
				}
			case r.Note == "release" || r.Note == "handle-exit":
				v.relSeq[int(r.Val)] = r.Seq
			case r.Note == "err":
				v.errVals = append(v.errVals, r.Val)
			case r.Note == "stop-call":
				if v.stopCall < 0 {
					v.stopCall = r.Seq
				}
			case r.Note == "stop-returned":
				if v.stopRet < 0 {
					v.stopRet = r.Seq
				}
			case r.Note == "cancel":
				v.cancelSeq = r.Seq
			case r.Note == "graceful-call":
				v.gracefulCall = r.Seq
			case r.Note == "graceful-returned":
				v.gracefulRet = r.Seq
			case r.Note == "autoall":
				v.autoall = r.Seq
			case r.Note == "div-fault":
				v.faultSeq = r.Seq
			case r.Note == "mark":
				v.marks = append(v.marks, r)
			case strings.HasPrefix(r.Note, "div-call"):
				v.divCalls = append(v.divCalls, r)
			case r.Note == "add-call":
				v.adds = append(v.adds, ctlOp{int(r.Val), uint(r.Aux), r.Seq, -1})
			case r.Note == "add-returned":
				v.adds[len(v.adds)-1].ret = r.Seq
			case r.Note == "remove-call":
				v.removes = append(v.removes, ctlOp{int(r.Val), uint(r.Aux), r.Seq, -1})
			case r.Note == "remove-returned":
				v.removes[len(v.removes)-1].ret = r.Seq
			}
		}
	}

	return v
}

// deliveredAt is the position in the history at which item was handed out: the
// discipline's write or the handler's receive, whichever was logged first (a blocked
// write is logged when the writer next gets the baton).
func (v *prioView) deliveredAt(item int) (int64, bool) {
	s, okS := v.sendSeq[item]
	g, okG := v.gotSeq[item]

	switch {
	case okS && okG:
		return min(s, g), true
	case okS:
		return s, true
	case okG:
		return g, true
	}

	return 0, false
}

type flightEvent struct {
	seq   int64
	item  int
	delta int
}

// flight returns the in-flight changes in history order: +1 when an item is handed
// out, -1 when its release is issued.
func (v *prioView) flight() []flightEvent {
	var evs []flightEvent

	items := map[int]bool{}
	for it := range v.sendSeq {
		items[it] = true
	}

	for it := range v.gotSeq {
		items[it] = true
	}

	for it := range items {
		at, _ := v.deliveredAt(it)
		evs = append(evs, flightEvent{at, it, +1})

		if r, ok := v.relSeq[it]; ok {
			evs = append(evs, flightEvent{r, it, -1})
		}
	}

	sort.Slice(evs, func(i, j int) bool { return evs[i].seq < evs[j].seq })

	return evs
}

// inflightAt is the number of items handed out and not yet released at seq.
func (v *prioView) inflightAt(seq int64) (total int, per map[uint]int) {
	per = map[uint]int{}

	for _, e := range v.flight() {
		if e.seq > seq {
			break
		}

		total += e.delta
		per[v.prioOf[e.item]] += e.delta
	}

	return total, per
}

func (v *prioView) allWritten() []int {
	var out []int
	for _, w := range v.written {
		out = append(out, w...)
	}

	return out
}

func (v *prioView) terminated() (int64, string) {
	// the first of the control calls to return is the first announcement of termination
	best, how := int64(-1), ""

	consider := func(seq int64, what string) {
		if seq >= 0 && (best < 0 || seq < best) {
			best, how = seq, what
		}
	}

	consider(v.stopRet, "Stop returned")
	consider(v.gracefulRet, "GracefulStop returned")

	if r, ok := hist(v.res.Hist).firstNote("stop2-returned"); ok {
		consider(r.Seq, "a second, concurrent Stop returned")
	}

	if best >= 0 {
		return best, how
	}

	switch {
	case v.outClosed >= 0:
		return v.outClosed, "output closed"
	case v.errClosed >= 0:
		return v.errClosed, "error channel closed"
	}

	return -1, ""
}

func checkPrio(prop string, sc *PrioSc, res *simrt.Result) Verdict {
	var vd Verdict

	v := viewPrio(sc, res)

	if prop == "C19" && v.newErr >= 0 {
		// a constructor that failed must not leave anything of the discipline running
		vd.fault("constructor-fails")

		if alive := libTasksAlive(res); len(alive) > 0 {
			vd.fail("goroutine-left-after-failed-constructor", "the constructor returned an error (bad option %q) and %d goroutine(s) it started remain at the end of the run: %v", sc.BadOpt, len(alive), alive)
		}

		return vd
	}

	if sc.BadOpt != "" {
		vd.Skipped = "constructor accepted " + sc.BadOpt + " (not this property's business)"
		return vd
	}

	if sc.Class == "createfault" {
		if prop == "C15" {
			checkCreateFault(&vd, v)
		}

		return vd
	}

	if v.newErr >= 0 {
		vd.Skipped = fmt.Sprintf("constructor rejected the configuration (code %d)", v.newErr)
		return vd
	}

	prioFaults(&vd, v)

	switch prop {
	case "C01":
		checkCapacity(&vd, v)
	case "C02":
		checkExactlyOnce(&vd, v)
	case "C05":
		checkShare(&vd, v)
	case "C06":
		checkProgress(&vd, v)
	case "C07":
		checkTermination(&vd, v)
	case "C15":
		checkDividerContract(&vd, v)
	case "C16":
		checkPrioStop(&vd, v)
	case "C17":
		checkDynamic(&vd, v, nil)
	case "C19":
		seq, how := v.terminated()
		checkGoroutines(&vd, res, seq, how, v.stopRet >= 0 || v.gracefulRet >= 0)
	}

	if res.Aborted && !res.Livelock && len(vd.Viol) == 0 && prop != "C01" && prop != "C05" {
		vd.Inconclusive = "step budget exhausted: " + stuck(res)
	}

	return vd
}

func prioFaults(vd *Verdict, v *prioView) {
	sc := v.sc

	if v.faultSeq >= 0 {
		vd.fault("divider-misbehaves")
	}

	if v.stopCall >= 0 {
		vd.fault("stop")
	}

	if v.cancelSeq >= 0 {
		vd.fault("context-cancel")
	}

	if v.gracefulCall >= 0 {
		vd.fault("graceful-stop")
	}

	for range v.adds {
		vd.fault("add-input")
	}

	for range v.removes {
		vd.fault("remove-input")
	}

	for _, h := range sc.Handlers {
		if h.Manual {
			vd.fault("handler-stalls")
			break
		}
	}

	for _, a := range sc.Ctl {
		if a.Kind == "resume" && len(a.List) > 1 {
			vd.fault("release-in-groups-out-of-order")
			break
		}
	}

	for i, c := range v.inClosed {
		for j, d := range v.inClosed {
			if i < j && c >= 0 && d >= 0 && c > d {
				vd.probe("inputs-closed-out-of-order")
			}
		}
	}

	for _, st := range v.res.Sites {
		if st.Blocked > 0 && (st.Site == "lib:v2/priority/priority.go:391" || st.Site == "lib:priority/priority.go:502") {
			vd.probe("discipline-blocked-on-output")
		}

		if st.Blocked > 0 && (st.Site == "lib:v2/priority/priority.go:239" || st.Site == "lib:priority/priority.go:318") {
			vd.probe("discipline-waited-for-one-feedback")
		}

		if st.Site == "lib:v2/priority/priority.go:355" || st.Site == "lib:priority/priority.go:462" {
			vd.probe("unbuffered-input-path")
		}
	}
}

// C01 -------------------------------------------------------------------------------

func checkCapacity(vd *Verdict, v *prioView) {
	total := 0
	peak := 0

	for _, e := range v.flight() {
		total += e.delta
		peak = max(peak, total)

		if total > v.sc.H {
			what := "items handed out and not released"
			if !v.sc.plain() {
				what = "concurrent Handle calls"
			}

			vd.fail("capacity-exceeded", "%d %s at seq %d (item %d); HandlersQuantity is %d", total, what, e.seq, e.item, v.sc.H)

			return
		}
	}

	if peak == v.sc.H {
		vd.probe("in-flight-reached-H")
	}
}

// C02 -------------------------------------------------------------------------------

func checkExactlyOnce(vd *Verdict, v *prioView) {
	sc := v.sc

	if sc.Class == "dynamic" {
		// channels registered (or replaced) through AddInput are input channels too
		checkDynamic(vd, v, map[string]bool{
			"wrong-tag": true, "delivered-twice": true, "delivered-not-written": true,
			"read-item-lost": true, "order-per-priority": true, "terminated-with-undelivered-item": true,
		})

		return
	}

	if sc.Class != "normal" {
		return
	}

	// items another reader of a shared input channel took are not the discipline's
	stolen := map[int]bool{}
	for _, r := range hist(v.res.Hist).notes("stolen") {
		stolen[int(r.Val)] = true
		vd.fault("input-shared-with-another-reader")
	}

	var want []int

	for _, it := range v.allWritten() {
		if !stolen[it] {
			want = append(want, it)
		}
	}

	wantSet := map[int]bool{}

	for _, it := range want {
		wantSet[it] = true
	}

	for _, r := range v.res.Hist {
		// a write that was handed over but not yet logged as completed when the run ended
		if r.Kind == simrt.KNote && r.Note == "write-start" {
			wantSet[int(r.Val)] = true
		}
	}

	seen := map[int]int{}

	var delivered []pitem

	if sc.plain() {
		delivered = v.sendOrd
	} else {
		for _, it := range v.gotList {
			delivered = append(delivered, pitem{it, sc.Inputs[max(0, min(inputOf(it), len(sc.Inputs)-1))].Prio})
		}
	}

	for _, d := range delivered {
		seen[d.item]++

		if stolen[d.item] {
			vd.fail("delivered-twice", "item %d was delivered although another reader of the shared input channel had taken it", d.item)
			return
		}

		if !wantSet[d.item] {
			vd.fail("delivered-not-written", "item %d was delivered but never written to any input", d.item)
			return
		}

		if seen[d.item] > 1 {
			vd.fail("delivered-twice", "item %d was delivered %d times", d.item, seen[d.item])
			return
		}

		if in := inputOf(d.item); in >= 0 && in < len(sc.Inputs) && sc.Inputs[in].Prio != d.prio {
			vd.fail("wrong-tag", "item %d written to the input of priority %d was delivered tagged %d", d.item, sc.Inputs[in].Prio, d.prio)
			return
		}
	}

	if sc.plain() {
		// FIFO per priority, judged at the discipline's writes to the output
		for i, in := range sc.Inputs {
			var got []int

			for _, d := range delivered {
				if d.prio == in.Prio {
					got = append(got, d.item)
				}
			}

			var w []int

			for _, it := range v.written[i] {
				if !stolen[it] {
					w = append(w, it)
				}
			}

			for k := range got {
				if k >= len(w) || got[k] != w[k] {
					vd.fail("order-per-priority", "priority %d: written %v, delivered in the order %v", in.Prio, w, got)
					return
				}
			}
		}
	}

	if !v.res.AllDone {
		if len(delivered) < len(want) {
			vd.fail("not-delivered", "%d items written, %d delivered within %dns although every handler releases (%s)", len(want), len(delivered), sc.Horizon, stuck(v.res))
		} else if !v.res.Aborted {
			// exactly-once holds for this run; that the run did not end is C07's business
			vd.probe("all-delivered-run-not-ended")
		}

		return
	}

	if len(delivered) != len(want) {
		vd.fail("not-delivered", "%d items written before the inputs were closed, %d delivered before the discipline terminated", len(want), len(delivered))
	}

	if len(want) == 0 {
		vd.probe("no-items")
	}
}

// C05 -------------------------------------------------------------------------------

func checkShare(vd *Verdict, v *prioView) {
	sc := v.sc

	if sc.Class != "saturate" {
		return
	}

	share := sc.share()
	per := map[uint]int{}

	consumed := make([]int, len(sc.Inputs))
	ri := 0

	limit := v.autoall // the checked window ends when the handlers stop holding items
	if limit < 0 {
		limit = 1 << 62
	}

	// saturation through blocked writers: the premise "data waiting continuously" is
	// checked, not assumed - it ends with the first poll that found an input empty
	smallCap := false

	for _, in := range sc.Inputs {
		if in.Writers > 0 {
			smallCap = true
		}
	}

	if smallCap {
		for _, r := range v.res.Hist {
			if r.Kind == simrt.KSelDefault && r.Lib && strings.HasPrefix(r.ChName, "in[") {
				if r.Seq < limit {
					limit = r.Seq
					vd.probe("saturation-ended-by-an-empty-poll")
				}

				break
			}
		}

		vd.probe("saturation-by-blocked-writers")
	}

	evs := v.flight()
	ei := 0

	exhausted := func(upTo int64) bool {
		for ; ri < len(v.libRecv) && v.libRecv[ri].seq <= upTo; ri++ {
			if v.libRecv[ri].ok {
				consumed[v.libRecv[ri].input]++
			}
		}

		for i, in := range sc.Inputs {
			if in.Writers > 0 {
				// once fewer items than writers remain, writers start to finish
				if consumed[i] >= in.Total-in.Writers-in.Cap {
					return true
				}

				continue
			}

			if consumed[i] >= in.Prefill {
				return true
			}
		}

		return false
	}

	advance := func(upTo int64) bool {
		for ; ei < len(evs) && evs[ei].seq <= upTo; ei++ {
			e := evs[ei]
			p := v.prioOf[e.item]
			per[p] += e.delta

			if e.seq < limit && per[p] > int(share[p]) {
				vd.fail("share-exceeded", "priority %d has %d items in flight at seq %d; its share of %d handlers under the %s divider is %d (shares %v)", p, per[p], e.seq, sc.H, sc.Divider, share[p], share)
				return false
			}
		}

		return true
	}

	for _, m := range v.marks {
		if m.Seq > limit {
			break
		}

		if !advance(m.Seq) {
			return
		}

		if exhausted(m.Seq) {
			vd.probe("input-ran-empty")
			return
		}

		// settled = nothing was released for a while (the shrinker may shorten the pauses)
		lastRel := int64(0)

		for _, r := range v.res.Hist {
			if r.Seq > m.Seq {
				break
			}

			if r.Kind == simrt.KNote && r.Note == "release" {
				lastRel = r.T
			}
		}

		// time the discipline's goroutine was held up by injected stalls does not count
		stalled := int64(0)

		for _, r := range v.res.Hist {
			if r.Seq > m.Seq {
				break
			}

			if r.Kind == simrt.KNote && r.Note == "sim-stall" && r.T >= lastRel {
				stalled += r.Val
			}
		}

		if m.T-lastRel-stalled < int64(40+4*sc.H)*max(1, sc.Unit) {
			vd.probe("mark-too-early-to-judge")
			continue
		}

		for p, want := range share {
			if per[p] != int(want) {
				vd.fail("share-not-reached", "settled point #%d (t=%dns): priority %d holds %d items, its share is %d (in flight per priority %v, shares %v, H=%d, divider %s)", m.Val, m.T, p, per[p], want, per, share, sc.H, sc.Divider)
				return
			}
		}

		vd.probe("settled-point-checked")
	}

	advance(limit)
}

// C06 -------------------------------------------------------------------------------

func checkProgress(vd *Verdict, v *prioView) {
	sc := v.sc

	if sc.Class == "dynamic" {
		// items written to a channel registered through AddInput must be delivered too
		checkDynamic(vd, v, map[string]bool{
			"terminated-with-undelivered-item": true, "graceful-stop-not-finished": true, "read-item-lost": true,
		})

		if len(vd.Viol) == 0 {
			checkServedAtMarks(vd, v)
		}

		return
	}

	switch sc.Class {
	case "single", "sparse":
		// exactly one priority has data: it must be granted all H handlers
		for _, m := range v.marks {
			if m.Val != 0 || (v.autoall >= 0 && m.Seq > v.autoall) {
				continue
			}

			// the mark only counts if at least H items of the lone priority had been
			// written, and the last of them long enough ago for the discipline's 1 ns
			// rounds to have handed them out (the shrinker may shorten the script)
			avail, lastT := 0, int64(0)

			for _, r := range v.res.Hist {
				if r.Seq > m.Seq {
					break
				}

				if r.Kind == simrt.KSend && !r.Lib && r.ChName == "in[0]" {
					avail++
					lastT = r.T
				}
			}

			if avail < sc.H || m.T-lastT < int64(40+4*sc.H)*max(1, sc.Unit) {
				vd.probe("mark-too-early-to-judge")
				continue
			}

			total, per := v.inflightAt(m.Seq)
			p := sc.Inputs[0].Prio

			if total != sc.H || per[p] != sc.H {
				// API-level description of the state: which priorities are below their
				// share, and would the configured divider give each of them at least one
				// of the vacant handlers?
				share := sc.share()

				var below []uint

				for _, in := range sc.Inputs {
					if per[in.Prio] < int(share[in.Prio]) {
						below = append(below, in.Prio)
					}
				}

				sort.Slice(below, func(i, j int) bool { return below[i] > below[j] })

				d := map[uint]uint{}
				baseDivider(sc.Divider)(below, uint(max(0, sc.H-total)), d)

				starvedShare := false

				for _, q := range below {
					if d[q] == 0 {
						starvedShare = true
					}
				}

				vd.failFacts("lone-priority-not-granted-all", map[string]any{
					"class": sc.Class, "priorities": len(sc.Inputs),
					"some_priority_below_its_share_gets_none_of_the_vacant_handlers": starvedShare,
				},
					"only priority %d has data (%d items written, the last one %dns ago; class %s, %d priorities configured) and no handler releases; it holds %d of %d handlers (in flight %v)", p, avail, m.T-lastT, sc.Class, len(sc.Inputs), per[p], sc.H, per)
				return
			}

			vd.probe("lone-priority-holds-all-handlers")
		}
	case "normal":
	default:
		return
	}

	if v.res.AllDone {
		return
	}

	// the run reached the horizon: every handler releases, so everything written must
	// have been delivered by now
	missing := 0

	var example int

	for _, it := range v.allWritten() {
		if _, ok := v.deliveredAt(it); !ok {
			missing++
			example = it
		}
	}

	blockedProducers := 0

	for _, t := range v.res.Tasks {
		if !t.Done && strings.HasPrefix(t.Name, "env:producer") {
			blockedProducers++
		}
	}

	if missing > 0 || blockedProducers > 0 {
		total, _ := v.inflightAt(1 << 62)
		rule := "starved"

		if total == 0 {
			rule = "stuck-with-nothing-in-flight"
		}

		vd.fail(rule, "%d written items (e.g. %d) were not delivered and %d producers were still blocked after %dns although every handler releases; %d in flight (%s)", missing, example, blockedProducers, sc.Horizon, total, stuck(v.res))
	}
}

// C07 -------------------------------------------------------------------------------

func checkTermination(vd *Verdict, v *prioView) {
	sc := v.sc

	if sc.Class == "dynamic" {
		checkDynamic(vd, v, map[string]bool{
			"terminated-with-open-input": true, "terminated-with-undelivered-item": true,
			"terminated-with-unreleased-item": true, "graceful-stop-not-finished": true,
		})

		return
	}

	if sc.Class == "stop" && !sc.plain() {
		// a rough stop may end a pending GracefulStop early, but when GracefulStop returns
		// the discipline has terminated, so every Handle call must have returned
		if v.gracefulRet >= 0 {
			for it, g := range v.gotSeq {
				if r, ok := v.relSeq[it]; g < v.gracefulRet && (!ok || r > v.gracefulRet) {
					vd.fail("handle-running-after-graceful-return", "GracefulStop() returned (seq %d) while Handle(%d) was still running", v.gracefulRet, it)
					return
				}
			}

			vd.probe("graceful-stop-ended-by-rough-stop")
		}

		return
	}

	if sc.Class != "normal" && sc.Class != "withhold" {
		return
	}

	for _, e := range v.errVals {
		if e != 0 {
			vd.fail("error-in-normal-mode", "Err() yielded a non-nil error (code %d) although the divider is correct", e)
			return
		}
	}

	term := int64(-1)
	how := ""

	switch {
	case sc.v1():
		term, how = v.gracefulRet, "GracefulStop returned"
	case sc.plain():
		term, how = v.outClosed, "Output() was closed"

		if v.errClosed >= 0 && (term < 0 || v.errClosed < term) {
			term, how = v.errClosed, "Err() was closed"
		}
	default:
		term, how = v.errClosed, "Err() was closed"
	}

	if term >= 0 {
		for i, in := range sc.Inputs {
			if in.Late {
				continue
			}

			if v.inClosed[i] < 0 || v.inClosed[i] > term {
				vd.fail("terminated-with-open-input", "%s (seq %d) while the input of priority %d was still open", how, term, in.Prio)
				return
			}

			for _, it := range v.written[i] {
				at, ok := v.deliveredAt(it)
				if !ok || at > term {
					vd.fail("terminated-with-undelivered-item", "%s (seq %d) before item %d of priority %d was delivered", how, term, it, in.Prio)
					return
				}
			}
		}

		for it, g := range v.gotSeq {
			if g > term {
				continue
			}

			if r, ok := v.relSeq[it]; !ok || r > term {
				what := "released"
				if !sc.plain() {
					what = "returned from Handle"
				}

				vd.fail("terminated-with-unreleased-item", "%s (seq %d) before item %d was %s", how, term, it, what)

				return
			}
		}

		for it, s := range v.sendSeq {
			if r, ok := v.relSeq[it]; s <= term && (!ok || r > term) {
				vd.fail("terminated-with-unreleased-item", "%s (seq %d) before item %d was released", how, term, it)
				return
			}
		}

		if sc.Class == "withhold" {
			for _, m := range v.marks {
				if m.Seq < term && m.T > 100 {
					vd.probe("termination-withheld-for-simulated-time")
				}
			}
		}

		if !sc.v1() && sc.plain() && v.res.AllDone && (v.errClosed < 0 || v.outClosed < 0) {
			vd.fail("channel-left-open", "discipline terminated but Output() closed=%v Err() closed=%v", v.outClosed >= 0, v.errClosed >= 0)
		}

		return
	}

	// not terminated: is it due?
	if v.res.AllDone {
		return
	}

	for i, in := range sc.Inputs {
		if !in.Late && v.inClosed[i] < 0 {
			return // an input is still open: nothing is due (and nothing happened, which is right)
		}
	}

	if sc.v1() && v.gracefulCall < 0 {
		return
	}

	for it := range v.gotSeq {
		if _, ok := v.relSeq[it]; !ok {
			return
		}
	}

	vd.fail("termination-not-prompt", "every input is closed and everything delivered was released, but the discipline had not terminated %dns later (%s)", sc.Horizon, stuck(v.res))
}

// C15 -------------------------------------------------------------------------------

func checkCreateFault(vd *Verdict, v *prioView) {
	sc := v.sc

	if sc.Fault != nil {
		vd.fault("divider-misbehaves-at-creation")

		if v.newErr != 1 {
			vd.fail("creation-fault-not-reported", "the divider broke the sum rule in the call made by New; New returned code %d (1 = ErrDividerBad, -1 = no error)", v.newErr)
		}

		return
	}

	vd.probe("zero-share-configuration")

	if v.newErr != 2 {
		vd.fail("zero-share-accepted", "HandlersQuantity %d gives some of %d priorities no handler under the %s divider; New returned code %d (2 = ErrHandlersQuantityTooSmall, -1 = no error)", sc.H, len(sc.Inputs), sc.Divider, v.newErr)
	}
}

func checkDividerContract(vd *Verdict, v *prioView) {
	sc := v.sc

	configured := map[int]bool{}
	for _, in := range sc.Inputs {
		configured[int(in.Prio)] = true
	}

	for _, c := range v.divCalls {
		var nilDist, dividend int
		fmt.Sscanf(c.Note, "div-call nil=%d dividend=%d", &nilDist, &dividend)

		for i, p := range c.Slice {
			if !configured[p] {
				vd.fail("divider-called-with-unknown-priority", "divider call #%d got priorities %v; %d is not configured", c.Val, c.Slice, p)
				return
			}

			// priorities travel through the history as int: compare them as the uints they are
			if i > 0 && uint(c.Slice[i-1]) <= uint(p) {
				vd.fail("divider-list-not-descending", "divider call #%d got priorities %v (as int; must be distinct, highest first)", c.Val, c.Slice)
				return
			}
		}

		if dividend > sc.H {
			vd.fail("dividend-exceeds-handlers", "divider call #%d got dividend %d, HandlersQuantity is %d", c.Val, dividend, sc.H)
			return
		}

		if !sc.v1() && nilDist == 1 {
			vd.fail("nil-distribution", "v2 divider call #%d got a nil distribution", c.Val)
			return
		}
	}

	checkCapacity(vd, v)

	if len(vd.Viol) > 0 {
		return
	}

	if v.faultSeq < 0 {
		// the faulty call index was never reached: an ordinary run
		for _, e := range v.errVals {
			if e != 0 {
				vd.fail("error-without-fault", "Err() yielded error code %d although the divider never misbehaved", e)
			}
		}

		return
	}

	for _, d := range v.sendOrd {
		if v.sendSeq[d.item] > v.faultSeq {
			vd.fail("delivery-after-divider-fault", "item %d was written to the output after the divider had returned a distribution that breaks the sum rule", d.item)
			return
		}
	}

	term := v.errClosed
	if !sc.v1() && v.outClosed >= 0 && v.outClosed < term {
		term = v.outClosed
	}

	if term >= 0 {
		for it, g := range v.gotSeq {
			if r, ok := v.relSeq[it]; g < term && (!ok || r > term) {
				vd.fail("terminated-before-release-after-fault", "after the divider fault the discipline terminated (seq %d) before item %d was released", term, it)
				return
			}
		}

		for it, s := range v.sendSeq {
			if r, ok := v.relSeq[it]; s < term && (!ok || r > term) {
				vd.fail("terminated-before-release-after-fault", "after the divider fault the discipline terminated (seq %d) before item %d was released", term, it)
				return
			}
		}
	}

	if !v.res.AllDone {
		if term < 0 {
			for it := range v.gotSeq {
				if _, ok := v.relSeq[it]; !ok {
					return // something is still held by a handler: termination is not due
				}
			}

			vd.fail("no-termination-after-divider-fault", "divider fault at seq %d, everything in flight was released, but the discipline had not terminated %dns later (%s)", v.faultSeq, sc.Horizon, stuck(v.res))
		}

		return
	}

	if len(v.errVals) != 1 || v.errVals[0] != 1 {
		vd.fail("wrong-error-after-divider-fault", "after the divider fault Err() yielded %v (want exactly one ErrDividerBad = [1])", v.errVals)
		return
	}

	total, _ := v.inflightAt(v.faultSeq)
	if total > 0 {
		vd.probe("divider-fault-with-items-in-flight")
	}

	if total == v.sc.H {
		vd.probe("divider-fault-with-all-handlers-busy")
	}
}

// C16 -------------------------------------------------------------------------------

func checkPrioStop(vd *Verdict, v *prioView) {
	sc := v.sc

	if sc.Class != "stop" {
		return
	}

	at := v.stopCall
	if at < 0 {
		at = v.cancelSeq
	}

	if at < 0 {
		return
	}

	// the stop must have had room to take effect before the run's horizon
	for _, r := range v.res.Hist {
		if r.Seq == at && v.res.HorizonHit && int64(sc.Horizon)-r.T < 1000*max(1, sc.Unit) {
			vd.probe("stop-too-close-to-the-horizon-to-judge")
			return
		}
	}

	inflight, _ := v.inflightAt(at)

	openInput := false
	for i, in := range sc.Inputs {
		if !in.Late && (v.inClosed[i] < 0 || v.inClosed[i] > at) {
			openInput = true
		}
	}

	gracefulPending := v.gracefulCall >= 0 && v.gracefulCall < at && (v.gracefulRet < 0 || v.gracefulRet > at)

	facts := map[string]any{
		"all_handlers_busy": inflight >= sc.H,
		"graceful_pending":  gracefulPending,
		"input_open":        openInput,
		"after_cancel":      v.cancelSeq >= 0 && (v.stopCall < 0 || v.cancelSeq < v.stopCall),
		"livelock":          v.res.Livelock,
	}

	if inflight >= sc.H {
		vd.probe("stop-with-all-handlers-busy")
	}

	if inflight == 0 {
		vd.probe("stop-with-nothing-in-flight")
	}

	if gracefulPending {
		vd.probe("stop-while-graceful-stop-pending")
	}

	if v.stopCall >= 0 && v.stopRet < 0 {
		how := fmt.Sprintf("did not return within %dns of simulated time", sc.Horizon)
		if v.res.Livelock {
			how = "never returned: the discipline spins without blocking (" + v.res.AbortReason + ")"
		}

		vd.failFacts("stop-not-returned", facts, "Stop() called with %d of %d handlers busy (graceful stop pending: %v, an input still open: %v) %s; %s", inflight, sc.H, gracefulPending, openInput, how, stuck(v.res))

		return
	}

	h := hist(v.res.Hist)

	if c, called := h.firstNote("stop2-call"); called {
		vd.probe("second-concurrent-stop")

		if _, ret := h.firstNote("stop2-returned"); !ret {
			vd.failFacts("second-stop-not-returned", facts, "a second Stop() (called at seq %d while the first was in progress or done) did not return within %dns; %s", c.Seq, sc.Horizon, stuck(v.res))
			return
		}
	}

	if v.gracefulCall > at && v.gracefulRet < 0 {
		vd.failFacts("graceful-after-stop-not-returned", facts, "GracefulStop() called after Stop()/cancel did not return within %dns; %s", sc.Horizon, stuck(v.res))
		return
	}

	if v.stopCall < 0 && v.cancelSeq >= 0 {
		if alive := libTasksAlive(v.res); len(alive) > 0 {
			how := fmt.Sprintf("%dns of simulated time later", sc.Horizon)
			if v.res.Livelock {
				how = "the discipline spins without blocking (" + v.res.AbortReason + ")"
			}

			vd.failFacts("cancel-no-effect", facts, "context cancelled with %d of %d handlers busy (graceful stop pending: %v); %s its goroutines are still there: %v", inflight, sc.H, gracefulPending, how, alive)

			return
		}
	}

	// every Stop() that returns - the first caller's and an overlapping second one's - is
	// entitled to the same guarantees
	type stopReturn struct {
		seq  int64
		what string
	}

	var rets []stopReturn

	if v.stopRet >= 0 {
		rets = append(rets, stopReturn{v.stopRet, "Stop()"})
	}

	if r, ok := h.firstNote("stop2-returned"); ok {
		rets = append(rets, stopReturn{r.Seq, "the second, overlapping Stop()"})
	}

	for _, sr := range rets {
		for _, d := range v.sendOrd {
			if v.sendSeq[d.item] > sr.seq {
				vd.failFacts("output-after-stop", facts, "item %d was written to the output after %s had returned", d.item, sr.what)
				return
			}
		}

		if !sc.plain() {
			for it, g := range v.gotSeq {
				if r, ok := v.relSeq[it]; g < sr.seq && (!ok || r > sr.seq) {
					vd.failFacts("handle-running-after-stop", facts, "Handle(%d) was still running when %s returned", it, sr.what)
					return
				}
			}

			for it, g := range v.gotSeq {
				if g > sr.seq {
					vd.failFacts("handle-called-after-stop", facts, "Handle(%d) was called after %s had returned", it, sr.what)
					return
				}
			}
		}
	}

	// simplified discipline: the order between handlers is not observable, but what Handle
	// was called with must be written items, each at most once
	if !sc.plain() {
		// (a write that was handed over but whose completion the producer had not logged
		// yet when the run ended still counts: "write-start" marks every attempt)
		wset := map[int]bool{}
		for _, it := range v.allWritten() {
			wset[it] = true
		}

		for _, r := range v.res.Hist {
			if r.Kind == simrt.KNote && r.Note == "write-start" {
				wset[int(r.Val)] = true
			}
		}

		seen := map[int]bool{}

		for _, it := range v.gotList {
			if !wset[it] {
				vd.failFacts("not-a-subsequence", facts, "Handle was called with %d, which was never written", it)
				return
			}

			if seen[it] {
				vd.failFacts("delivered-twice", facts, "Handle was called twice with item %d", it)
				return
			}

			seen[it] = true
		}
	}

	// in-order, duplicate-free subsequence per priority
	if sc.plain() {
		seen := map[int]bool{}

		for i := range sc.Inputs {
			w := v.written[i]
			wi := 0

			for _, d := range v.sendOrd {
				if inputOf(d.item) != i {
					continue
				}

				if seen[d.item] {
					vd.failFacts("delivered-twice", facts, "item %d delivered twice", d.item)
					return
				}

				seen[d.item] = true

				for wi < len(w) && w[wi] != d.item {
					wi++
				}

				if wi == len(w) {
					vd.failFacts("not-a-subsequence", facts, "delivered item %d is out of order or was never written (written %v)", d.item, w)
					return
				}
			}
		}
	}
}

// C17 -------------------------------------------------------------------------------

// checkDynamic is the C17 oracle. C02 and C07 reuse the rules that restate their own
// property for channels registered through AddInput (only). only == nil: all rules.
func checkDynamic(vd0 *Verdict, v *prioView, only map[string]bool) {
	sc := v.sc

	if sc.Class != "dynamic" {
		return
	}

	vd := &Verdict{}

	defer func() {
		for _, x := range vd.Viol {
			if only == nil || only[x.Rule] {
				vd0.Viol = append(vd0.Viol, x)
			}
		}

		for k, n := range vd.Probes {
			for i := 0; i < n; i++ {
				vd0.probe(k)
			}
		}
	}()

	checkCapacity(vd, v)

	if len(vd.Viol) > 0 {
		return
	}

	// registration over time: priority -> input index
	reg := map[uint]int{}

	for i, in := range sc.Inputs {
		if !in.Late {
			reg[in.Prio] = i
		}
	}

	type ban struct {
		input int
		from  int64
		why   string
	}

	var bans []ban

	type op struct {
		add bool
		o   ctlOp
	}

	var ops []op
	for _, a := range v.adds {
		ops = append(ops, op{true, a})
	}

	for _, r := range v.removes {
		ops = append(ops, op{false, r})
	}

	sort.Slice(ops, func(i, j int) bool { return ops[i].o.call < ops[j].o.call })

	addedAt := map[int]int64{}

	for _, o := range ops {
		if o.o.ret < 0 {
			continue
		}

		if o.add {
			if old, ok := reg[o.o.prio]; ok && old != o.o.input {
				bans = append(bans, ban{old, o.o.ret, fmt.Sprintf("it was replaced by AddInput(in[%d], %d)", o.o.input, o.o.prio)})
				vd.probe("input-replaced")
			}

			reg[o.o.prio] = o.o.input
			addedAt[o.o.input] = o.o.ret
		} else {
			if cur, ok := reg[o.o.prio]; ok {
				bans = append(bans, ban{cur, o.o.ret, fmt.Sprintf("RemoveInput(%d) had returned", o.o.prio)})
				delete(reg, o.o.prio)
				vd.probe("input-removed")
			} else {
				vd.probe("remove-of-unregistered-priority")
			}
		}
	}

	for _, b := range bans {
		for _, r := range v.libRecv {
			if r.input == b.input && r.seq > b.from {
				vd.fail("read-after-removal", "the discipline read from in[%d] (seq %d) after %s (seq %d)", b.input, r.seq, b.why, b.from)
				return
			}
		}
	}

	// tags and exactly-once of everything the discipline read
	sent := map[int]int{}

	for _, d := range v.sendOrd {
		sent[d.item]++

		in := inputOf(d.item)
		if in < 0 || in >= len(sc.Inputs) {
			vd.fail("delivered-not-written", "item %d delivered, never written", d.item)
			return
		}

		if sc.Inputs[in].Prio != d.prio {
			vd.fail("wrong-tag", "item %d read from the channel registered for priority %d was delivered tagged %d", d.item, sc.Inputs[in].Prio, d.prio)
			return
		}

		if sent[d.item] > 1 {
			vd.fail("delivered-twice", "item %d delivered %d times", d.item, sent[d.item])
			return
		}
	}

	if v.gracefulRet >= 0 {
		for _, r := range v.libRecv {
			if r.ok && sent[r.item] != 1 {
				vd.fail("read-item-lost", "item %d was read from in[%d] but delivered %d times before GracefulStop returned", r.item, r.input, sent[r.item])
				return
			}
		}

		for p, i := range reg {
			if v.inClosed[i] < 0 || v.inClosed[i] > v.gracefulRet {
				vd.fail("terminated-with-open-input", "GracefulStop returned while the input registered for priority %d (in[%d]) was open", p, i)
				return
			}
		}

		for it, g := range v.gotSeq {
			if r, ok := v.relSeq[it]; g < v.gracefulRet && (!ok || r > v.gracefulRet) {
				vd.fail("terminated-with-unreleased-item", "GracefulStop returned before item %d was released", it)
				return
			}
		}

		// a channel that is still registered when GracefulStop returns was closed (checked
		// above), so everything written to it must have been delivered, in order
		for p, i := range reg {
			var got []int

			for _, d := range v.sendOrd {
				if inputOf(d.item) == i && v.sendSeq[d.item] < v.gracefulRet {
					got = append(got, d.item)
				}
			}

			w := v.written[i]

			for k := range got {
				if k >= len(w) || got[k] != w[k] {
					vd.fail("order-per-priority", "priority %d (in[%d]): written %v, delivered in the order %v", p, i, w, got)
					return
				}
			}

			if len(got) != len(w) {
				vd.fail("terminated-with-undelivered-item", "GracefulStop returned although only %d of the %d items written to in[%d] (registered for priority %d, closed) were delivered", len(got), len(w), i, p)
				return
			}
		}

		// delivery after AddInput returned: something of every added, still
		// registered and written channel must have come out
		for p, i := range reg {
			if sc.Inputs[i].Late && len(v.written[i]) > 0 {
				any := false

				for _, d := range v.sendOrd {
					if inputOf(d.item) == i {
						any = true
						break
					}
				}

				if any {
					vd.probe("added-input-delivered")
				}

				_ = p
			}
		}

		return
	}

	if v.res.AllDone || v.gracefulCall < 0 {
		return
	}

	// graceful stop requested and not finished: is it due?
	for _, i := range reg {
		if v.inClosed[i] < 0 {
			return
		}
	}

	for it := range v.gotSeq {
		if _, ok := v.relSeq[it]; !ok {
			return
		}
	}

	vd.fail("graceful-stop-not-finished", "all registered inputs are closed or removed and everything was released, but GracefulStop had not returned %dns later (%s)", sc.Horizon, stuck(v.res))
}

// ---------------------------------------------------------------------------------

func shrinkPrio(sc *PrioSc) []any {
	var out []any

	add := func(f func(c *PrioSc)) {
		c := cloneJSON(*sc)
		f(&c)
		c.Horizon = prioHorizon(&c)
		out = append(out, &c)
	}

	for i := range sc.Ctl {
		i := i
		k := sc.Ctl[i].Kind

		if k == "resume" || k == "mark" || k == "remove" || (k == "graceful" && sc.Class == "stop") {
			add(func(c *PrioSc) { c.Ctl = append(c.Ctl[:i:i], c.Ctl[i+1:]...) })
		}

		if k == "resume" && len(sc.Ctl[i].List) > 1 {
			add(func(c *PrioSc) { c.Ctl[i].List = c.Ctl[i].List[:len(c.Ctl[i].List)/2] })
		}

		if sc.Ctl[i].WaitNs > 0 {
			add(func(c *PrioSc) { c.Ctl[i].WaitNs /= 2 })
		}

		if sc.Ctl[i].WaitSteps > 1 {
			add(func(c *PrioSc) { c.Ctl[i].WaitSteps /= 2 })
			add(func(c *PrioSc) { c.Ctl[i].WaitSteps-- })
		}
	}

	canDropInput := sc.Class == "normal" || sc.Class == "stop" || sc.Class == "fault" || sc.Class == "withhold"

	for i := range sc.Inputs {
		i := i

		if canDropInput && len(sc.Inputs) > 1 && sc.H > len(sc.Inputs)-1 {
			ok := true

			for _, a := range sc.Ctl {
				if a.Kind == "closein" || a.Kind == "add" || a.Kind == "remove" {
					ok = false
				}
			}

			if ok {
				add(func(c *PrioSc) { c.Inputs = append(c.Inputs[:i:i], c.Inputs[i+1:]...) })
			}
		}

		for b := range sc.Inputs[i].Bursts {
			b := b
			add(func(c *PrioSc) { c.Inputs[i].Bursts = append(c.Inputs[i].Bursts[:b:b], c.Inputs[i].Bursts[b+1:]...) })

			if sc.Inputs[i].Bursts[b].N > 1 {
				add(func(c *PrioSc) { c.Inputs[i].Bursts[b].N /= 2 })
			}

			if sc.Inputs[i].Bursts[b].Delay > 0 {
				add(func(c *PrioSc) { c.Inputs[i].Bursts[b].Delay = 0 })
			}
		}

		if sc.Inputs[i].Prefill > 0 && sc.Class != "saturate" && sc.Class != "single" {
			add(func(c *PrioSc) { c.Inputs[i].Prefill-- })
		}

		if sc.Inputs[i].Cap > sc.Inputs[i].Prefill {
			add(func(c *PrioSc) { c.Inputs[i].Cap = c.Inputs[i].Prefill })
		}
	}

	for i := range sc.Handlers {
		i := i

		if len(sc.Handlers[i].Delays) > 0 {
			add(func(c *PrioSc) { c.Handlers[i].Delays = nil })
		}
	}

	if sc.Fault != nil && sc.Fault.Call > 0 {
		add(func(c *PrioSc) { c.Fault.Call /= 2 })
		add(func(c *PrioSc) { c.Fault.Call-- })
	}

	if sc.OutCap > 0 {
		add(func(c *PrioSc) { c.OutCap = 0 })
	}

	if sc.FbCap > 0 {
		add(func(c *PrioSc) { c.FbCap = 0 })
	}

	return out
}

// checkServedAtMarks is "when nothing is in flight and some input has data, an item is
// delivered without any release being needed", judged at the marks of a scenario whose
// handlers release everything by themselves: at a mark at which nothing is in flight, no
// item that was written to a registered, unremoved input long enough ago (the same settle
// time as every other mark rule) may still be waiting.
func checkServedAtMarks(vd *Verdict, v *prioView) {
	sc := v.sc
	settle := int64(40+4*sc.H) * max(1, sc.Unit)

	for _, m := range v.marks {
		if total, _ := v.inflightAt(m.Seq); total != 0 {
			vd.probe("mark-with-items-in-flight")
			continue
		}

		removed := map[int]bool{}
		for _, op := range v.removes {
			if op.call <= m.Seq {
				for i, in := range sc.Inputs {
					if in.Prio == op.prio {
						removed[i] = true // conservatively: any input of that priority
					}
				}
			}
		}

		// a channel whose priority was registered again was replaced: no longer read
		for _, op := range v.adds {
			if op.call <= m.Seq {
				for i, in := range sc.Inputs {
					if in.Prio == op.prio && i != op.input {
						removed[i] = true
					}
				}
			}
		}

		for _, r := range v.res.Hist {
			if r.Seq > m.Seq {
				break
			}

			if r.Kind != simrt.KSend || r.Lib {
				continue
			}

			var i int
			if _, err := fmt.Sscanf(r.ChName, "in[%d]", &i); err != nil || removed[i] || sc.Inputs[i].Late {
				continue
			}

			if m.T-r.T < settle {
				continue
			}

			if at, ok := v.deliveredAt(int(r.Val)); ok && at <= m.Seq {
				continue
			}

			vd.fail("stuck-with-nothing-in-flight", "item %d was written to input %d (priority %d) %dns before the mark at t=%dns and is still waiting there although nothing is in flight and every handler releases (%s)",
				r.Val, i, sc.Inputs[i].Prio, m.T-r.T, m.T, stuck(v.res))

			return
		}

		vd.probe("mark-everything-served")
	}
}
