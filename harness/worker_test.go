package harness

import (
	"encoding/binary"
	"encoding/json"
	"fmt"
	"os"
	"os/exec"
	"runtime"
	"sort"
	"strconv"
	"strings"
	"testing"
	"testing/synctest"
	"time"

	"verif/simrt"
)

// Failure is a failing run: everything needed to reproduce it without the seed.
type Failure struct {
	Property   string          `json:"property"`
	Engine     string          `json:"engine"`
	Seed       uint64          `json:"seed"`
	RunIndex   int64           `json:"run_index"`
	Policy     string          `json:"policy"`
	Scenario   json.RawMessage `json:"scenario"`
	Choices    SparseChoices   `json:"choices"`
	PickByPrio bool            `json:"pick_by_prio"`
	PrioSeed   uint64          `json:"prio_seed"`
	Rule       string          `json:"rule"`
	Violations []Violation     `json:"violations"`
	Hash       string          `json:"event_log_hash"`
	Steps      int64           `json:"steps"`
	Shrink     *ShrinkStats    `json:"shrink,omitempty"`
	Trace      []string        `json:"trace,omitempty"`
	Race       bool            `json:"race_build"`
}

// ShrinkStats says what minimisation did.
type ShrinkStats struct {
	Trials          int `json:"trials"`
	ScenarioBytes0  int `json:"scenario_bytes_before"`
	ScenarioBytes1  int `json:"scenario_bytes_after"`
	NonDefault0     int `json:"non_default_choices_before"`
	NonDefault1     int `json:"non_default_choices_after"`
	ChoicesConsumed int `json:"choices_consumed_after"`
}

// SparseChoices stores the decision list: N decisions, all default (0) except NZ.
type SparseChoices struct {
	N  int      `json:"n"`
	NZ [][2]int `json:"non_default"` // [index, value]
}

func sparse(list []uint16) SparseChoices {
	sc := SparseChoices{N: len(list), NZ: [][2]int{}}

	for i, v := range list {
		if v != 0 {
			sc.NZ = append(sc.NZ, [2]int{i, int(v)})
		}
	}

	return sc
}

func (sc SparseChoices) dense() []uint16 {
	list := make([]uint16, sc.N)

	for _, e := range sc.NZ {
		if e[0] >= 0 && e[0] < len(list) {
			list[e[0]] = uint16(e[1])
		}
	}

	return list
}

// SiteAgg aggregates site statistics over runs.
type SiteAgg struct {
	Hits    int64   `json:"hits"`
	Blocked int64   `json:"blocked"`
	Cases   []int64 `json:"select_cases,omitempty"` // index 0 = default, i = clause i-1
}

// Summary is what one worker reports.
type Summary struct {
	Property     string              `json:"property"`
	From         int64               `json:"from"`
	To           int64               `json:"to"`
	Runs         int64               `json:"runs"`
	Skipped      int64               `json:"skipped"`
	Inconclusive []string            `json:"inconclusive,omitempty"`
	Abandoned    int64               `json:"abandoned_runs"`
	Steps        int64               `json:"steps"`
	SimNanos     int64               `json:"sim_ns"`
	Choices      int64               `json:"choices"`
	Nontrivial   int64               `json:"nontrivial_runs"`
	Engines      map[string]int64    `json:"engines"`
	Classes      map[string]int64    `json:"classes"`
	Policies     map[string]int64    `json:"policies"`
	Faults       map[string]int64    `json:"faults"`
	Probes       map[string]int64    `json:"probes"`
	Sites        map[string]*SiteAgg `json:"sites"`
	Samples      []json.RawMessage   `json:"samples"`
	Failure      *Failure            `json:"failure,omitempty"`
	RaceReports  int64               `json:"race_reports"`
	KnownHits    map[string]int64    `json:"known_hits"`
	WallS        float64             `json:"wall_s"`
	Digest       string              `json:"digest"` // hash of all per-run event-log hashes (determinism self-test)
	// Next is the first run index this worker did not execute (it stops early when its
	// memory grows: abandoned runs leave parked goroutines behind); the driver starts a
	// fresh process there.
	Next     int64  `json:"next"`
	Recycled bool   `json:"recycled"`
	MemSysMB uint64 `json:"mem_sys_mb"`
}

type classed interface{ class() string }

func (sc *LimitSc) class() string { return sc.Class }

func propHash(p string) uint64 {
	h := uint64(1469598103934665603)
	for i := 0; i < len(p); i++ {
		h = (h ^ uint64(p[i])) * 1099511628211
	}

	return h
}

func envInt(name string, def int64) int64 {
	v := os.Getenv(name)
	if v == "" {
		return def
	}

	n, err := strconv.ParseInt(v, 10, 64)
	if err != nil {
		panic(fmt.Sprintf("%s=%q: %v", name, v, err))
	}

	return n
}

// executeOnce runs one scenario under one choice stream in a fresh bubble.
func executeOnce(t *testing.T, eng *Engine, prop string, sc any, ch *simrt.Choices, keepLog bool) (*simrt.Result, Verdict) {
	cfg, main := eng.Build(sc)
	cfg.KeepLog = keepLog

	var res *simrt.Result

	// synctest.Test ends the calling goroutine (t.FailNow) when the race detector
	// reported something during the bubble: run it on a goroutine of its own so that
	// the worker survives and can attribute the report to this run.
	finished := make(chan any, 1)

	go func() {
		var failure any

		defer func() {
			// a run that is abandoned with goroutines still parked makes the bubble end
			// with a "blocked goroutines remain" panic; later bubbles are unaffected
			if r := recover(); r != nil && !strings.Contains(fmt.Sprint(r), "blocked goroutines remain") {
				failure = r
			}

			finished <- failure
		}()

		synctest.Test(t, func(t *testing.T) {
			res = simrt.Run(cfg, ch, main)
		})
	}()

	if failure := <-finished; failure != nil {
		panic(failure)
	}

	if res == nil {
		panic("simulated run produced no result")
	}

	v := eng.Check(prop, sc, res)

	if simrt.RaceBuild && prop == "C20" && res.RaceReports > 0 {
		v.fail("data-race", "%d data race report(s) from the race detector during this run (see the worker log)", res.RaceReports)
	}

	return res, v
}

func TestSim(t *testing.T) {
	curT = t

	switch os.Getenv("SIM_MODE") {
	case "run":
		workerRun(t)
	case "shrink":
		workerShrink(t)
	case "replay":
		workerReplay(t)
	default:
		t.Skip("SIM_MODE not set")
	}
}

func runSeedFor(seed uint64, prop string, idx int64) uint64 {
	return simrt.Mix(seed, propHash(prop), uint64(idx))
}

func workerRun(t *testing.T) {
	prop := os.Getenv("SIM_PROP")
	seed := uint64(envInt("VERIF_SEED", 1))
	from, to := envInt("SIM_FROM", 0), envInt("SIM_TO", 100)
	stride := envInt("SIM_STRIDE", 1)
	out := os.Getenv("SIM_OUT")
	deadline := time.Now().Add(time.Duration(envInt("SIM_WALL_S", 3600)) * time.Second)
	onlyEngine := os.Getenv("SIM_ENGINE")

	if os.Getenv("SIM_TIER") == "thorough" {
		scale = 3
	}

	names := propEngines[prop]
	if len(names) == 0 {
		t.Fatalf("no engines for property %q", prop)
	}

	sum := &Summary{
		Property: prop, From: from, To: to,
		Engines: map[string]int64{}, Classes: map[string]int64{}, Policies: map[string]int64{},
		Faults: map[string]int64{}, Probes: map[string]int64{}, Sites: map[string]*SiteAgg{},
		KnownHits: map[string]int64{},
	}

	known := loadKnown(t, os.Getenv("SIM_KNOWN"))

	start := time.Now()

	var sigs []uint64

	digest := uint64(1469598103934665603)

	var hashLog *os.File

	if hp := os.Getenv("SIM_HASHES"); hp != "" {
		f, err := os.Create(hp)
		if err != nil {
			t.Fatal(err)
		}

		defer f.Close()

		hashLog = f
	}

	sum.Next = to

	memLimit := uint64(envInt("SIM_MEM_MB", 1000)) << 20

	for idx := from; idx < to; idx += stride {
		if time.Now().After(deadline) {
			sum.To = idx
			break
		}

		if n := (idx - from) / stride; n > 0 && n%128 == 0 {
			var ms runtime.MemStats
			runtime.ReadMemStats(&ms)

			if ms.Sys > memLimit {
				sum.To, sum.Next, sum.Recycled = idx, idx, true
				break
			}
		}

		name := names[int(idx)%len(names)]
		if onlyEngine != "" {
			name = onlyEngine
		}

		eng := engines[name]
		if eng == nil {
			t.Fatalf("engine %q is not registered", name)
		}

		rs := runSeedFor(seed, prop, idx)
		rng := simrt.SplitMix{S: rs}
		sc := eng.Gen(prop, &rng)
		pol := genPolicy(&rng, 400)
		ch := simrt.NewChoices(simrt.Mix(rs, 1), pol)

		res, v := executeOnce(t, eng, prop, sc, ch, false)

		digest = (digest ^ res.Hash) * 1099511628211

		if hashLog != nil {
			fmt.Fprintf(hashLog, "%d %s %016x %d %d\n", idx, name, res.Hash, res.Steps, res.SimNanos)
		}

		if v.Skipped != "" {
			sum.Skipped++
			continue
		}

		sum.Runs++
		sum.Engines[name]++
		sum.Policies[pol.Name]++
		sum.Steps += res.Steps
		sum.SimNanos += res.SimNanos
		sum.Choices += int64(res.Choices)
		sum.RaceReports += int64(res.RaceReports)

		if c, ok := sc.(classed); ok {
			sum.Classes[name+"/"+c.class()]++
		}

		if !res.AllDone {
			sum.Abandoned++
		}

		for k, n := range v.Faults {
			sum.Faults[k] += int64(n)
		}

		for k, n := range v.Probes {
			sum.Probes[k] += int64(n)
		}

		for _, st := range res.Sites {
			a := sum.Sites[st.Site]
			if a == nil {
				a = &SiteAgg{}
				sum.Sites[st.Site] = a
			}

			a.Hits += st.Hits
			a.Blocked += st.Blocked

			for i, c := range st.Cases {
				if c > 0 {
					for len(a.Cases) <= i {
						a.Cases = append(a.Cases, 0)
					}

					a.Cases[i] += c
				}
			}
		}

		if res.MultiReady > 0 || len(v.Faults) > 0 {
			sum.Nontrivial++
			sigs = append(sigs, res.Sig)
		}

		if len(sum.Samples) < 3 {
			raw, _ := json.Marshal(map[string]any{
				"run_index": idx, "engine": name, "policy": pol.Name, "scenario": sc,
				"steps": res.Steps, "sim_ns": res.SimNanos, "non_default_choices": ch.NonZero(),
				"records": len(res.Hist),
			})
			sum.Samples = append(sum.Samples, raw)
		}

		if v.Inconclusive != "" {
			sum.Inconclusive = append(sum.Inconclusive, fmt.Sprintf("run %d (%s): %s", idx, name, v.Inconclusive))
			if len(sum.Inconclusive) > 5 {
				break
			}

			continue
		}

		// violations that are listed as open known findings are counted, not reported;
		// anything else of the same property still is
		var unknown []Violation

		for _, x := range v.Viol {
			if k := matchKnown(known, name, x); k != "" {
				sum.KnownHits[k]++
			} else {
				unknown = append(unknown, x)
			}
		}

		v.Viol = unknown

		if len(v.Viol) > 0 {
			raw, _ := json.Marshal(sc)
			sum.Failure = &Failure{
				Property: prop, Engine: name, Seed: seed, RunIndex: idx, Policy: pol.Name,
				Scenario: raw, Choices: sparse(ch.List()), PickByPrio: ch.PickByPrio(), PrioSeed: ch.PrioSeed(),
				Rule: v.Viol[0].Rule, Violations: v.Viol, Hash: fmt.Sprintf("%016x", res.Hash), Steps: res.Steps,
				Race: simrt.RaceBuild,
			}
			sum.To = idx + 1

			break
		}
	}

	var msEnd runtime.MemStats
	runtime.ReadMemStats(&msEnd)
	sum.MemSysMB = msEnd.Sys >> 20

	sum.WallS = time.Since(start).Seconds()
	sum.Digest = fmt.Sprintf("%016x", digest)

	writeJSON(t, out, sum)

	buf := make([]byte, 8*len(sigs))
	for i, s := range sigs {
		binary.LittleEndian.PutUint64(buf[8*i:], s)
	}

	if err := os.WriteFile(out+".sigs", buf, 0o644); err != nil {
		t.Fatal(err)
	}
}

// KnownFinding is an entry of /verif/known_findings.json (open ones only reach the worker).
type KnownFinding struct {
	ID     string         `json:"id"`
	Engine string         `json:"engine,omitempty"`
	Rule   string         `json:"rule"`
	Facts  map[string]any `json:"facts,omitempty"`
}

func loadKnown(t *testing.T, path string) []KnownFinding {
	if path == "" {
		return nil
	}

	data, err := os.ReadFile(path)
	if err != nil {
		return nil
	}

	var out []KnownFinding
	if err := json.Unmarshal(data, &out); err != nil {
		t.Fatalf("%s: %v", path, err)
	}

	return out
}

func matchKnown(known []KnownFinding, engine string, v Violation) string {
	for _, k := range known {
		if k.Rule != v.Rule || (k.Engine != "" && k.Engine != engine) {
			continue
		}

		ok := true

		for fk, fv := range k.Facts {
			if got, has := v.Facts[fk]; !has || fmt.Sprint(got) != fmt.Sprint(fv) {
				ok = false
				break
			}
		}

		if ok {
			return k.ID
		}
	}

	return ""
}

func writeJSON(t *testing.T, path string, v any) {
	data, err := json.MarshalIndent(v, "", " ")
	if err != nil {
		t.Fatal(err)
	}

	if err := os.WriteFile(path, data, 0o644); err != nil {
		t.Fatal(err)
	}
}

func loadFailure(t *testing.T, path string) (*Failure, *Engine, any) {
	data, err := os.ReadFile(path)
	if err != nil {
		t.Fatal(err)
	}

	var f Failure
	if err := json.Unmarshal(data, &f); err != nil {
		t.Fatal(err)
	}

	eng := engines[f.Engine]
	if eng == nil {
		t.Fatalf("engine %q is not registered", f.Engine)
	}

	sc, err := eng.Decode(f.Scenario)
	if err != nil {
		t.Fatal(err)
	}

	return &f, eng, sc
}

// shrinkKnown: open known findings; a minimisation candidate whose failure has turned into
// a listed finding is not "the same failure" any more.
var (
	shrinkKnown  []KnownFinding
	shrinkEngine string
)

func hasRule(v Verdict, rule string) bool {
	for _, x := range v.Viol {
		if x.Rule == rule && matchKnown(shrinkKnown, shrinkEngine, x) == "" {
			return true
		}
	}

	return false
}

// workerShrink minimises a failing run: first the scenario (structure), then the
// decision list (every dropped decision falls back to the default policy), keeping a
// variant only while the same rule of the same property still fails.
func workerShrink(t *testing.T) {
	f, eng, sc := loadFailure(t, os.Getenv("SIM_IN"))
	shrinkKnown, shrinkEngine = loadKnown(t, os.Getenv("SIM_KNOWN")), f.Engine
	budget := int(envInt("SIM_SHRINK_BUDGET", 800))
	list := f.Choices.dense()

	stats := &ShrinkStats{ScenarioBytes0: len(f.Scenario), NonDefault0: len(f.Choices.NZ)}

	try := func(sc any, list []uint16) (bool, *simrt.Result, Verdict, *simrt.Choices) {
		stats.Trials++

		if simrt.RaceBuild {
			// The race detector reports a given pair of stacks once per process, so a
			// candidate has to be judged in a process of its own: this binary in replay mode.
			ch := simrt.ReplayChoices(append([]uint16(nil), list...), f.PickByPrio, f.PrioSeed)

			return replayInChild(t, f, sc, list), nil, Verdict{}, ch
		}

		ch := simrt.ReplayChoices(append([]uint16(nil), list...), f.PickByPrio, f.PrioSeed)
		res, v := executeOnce(t, eng, f.Property, sc, ch, false)

		return hasRule(v, f.Rule), res, v, ch
	}

	ok, _, _, _ := try(sc, list)
	if !ok {
		t.Fatalf("the failure does not reproduce before shrinking")
	}

	structural := func() {
		for stats.Trials < budget {
			progressed := false

			for _, cand := range eng.Shrink(sc) {
				if stats.Trials >= budget {
					break
				}

				if ok, _, _, _ := try(cand, list); ok {
					sc = cand
					progressed = true

					break
				}
			}

			if !progressed {
				return
			}
		}
	}

	structural()

	// decisions: truncate, then zero blocks of decreasing size
	if !simrt.RaceBuild {
		if ok, _, _, ch := try(sc, list); ok {
			list = append([]uint16(nil), ch.List()...)
		}
	}

	for _, frac := range []int{8, 4, 2} {
		cut := len(list) - len(list)/frac
		if cut < len(list) && stats.Trials < budget {
			if ok, _, _, _ := try(sc, list[:cut]); ok {
				list = list[:cut]
			}
		}
	}

	for block := (len(list) + 1) / 2; block >= 1 && stats.Trials < budget; block /= 2 {
		for lo := 0; lo < len(list) && stats.Trials < budget; lo += block {
			hi := min(lo+block, len(list))

			any := false
			for _, x := range list[lo:hi] {
				if x != 0 {
					any = true
					break
				}
			}

			if !any {
				continue
			}

			cand := append([]uint16(nil), list...)
			for i := lo; i < hi; i++ {
				cand[i] = 0
			}

			if ok, _, _, _ := try(sc, cand); ok {
				list = cand
			}
		}
	}

	structural()

	if simrt.RaceBuild {
		raw, _ := json.Marshal(sc)
		f.Scenario = raw
		f.Choices = sparse(list)
		stats.ScenarioBytes1 = len(raw)
		stats.NonDefault1 = len(f.Choices.NZ)
		stats.ChoicesConsumed = f.Choices.N
		f.Shrink = stats
		f.Hash = ""

		writeJSON(t, os.Getenv("SIM_OUT"), f)

		return
	}

	// final run: consumed decisions, trace, hash
	ch := simrt.ReplayChoices(append([]uint16(nil), list...), f.PickByPrio, f.PrioSeed)
	res, v := executeOnce(t, eng, f.Property, sc, ch, true)

	if !hasRule(v, f.Rule) {
		t.Fatalf("shrunk case stopped failing (simulator is not deterministic?)")
	}

	raw, _ := json.Marshal(sc)
	f.Scenario = raw
	f.Choices = sparse(ch.List())
	f.Violations = v.Viol
	f.Hash = fmt.Sprintf("%016x", res.Hash)
	f.Steps = res.Steps
	f.Trace = tail(res.LogText, 400)

	stats.ScenarioBytes1 = len(raw)
	stats.NonDefault1 = len(f.Choices.NZ)
	stats.ChoicesConsumed = f.Choices.N
	f.Shrink = stats

	writeJSON(t, os.Getenv("SIM_OUT"), f)
}

// compress collapses runs of records that differ only in sequence number, step and
// time (idle polling), so that the tail of a trace shows what happened.
func compress(lines []string) []string {
	key := func(l string) string {
		if i := strings.Index(l, "task="); i >= 0 {
			return l[i:]
		}

		return l
	}

	var out []string

	run := 0

	for i, l := range lines {
		if i > 0 && key(l) == key(lines[i-1]) {
			run++
			continue
		}

		if run > 0 {
			out = append(out, fmt.Sprintf("    ... the same record %d more times ...", run))
			run = 0
		}

		out = append(out, l)
	}

	if run > 0 {
		out = append(out, fmt.Sprintf("    ... the same record %d more times ...", run))
	}

	return out
}

// replayInChild judges one candidate in a fresh process (race build only).
func replayInChild(t *testing.T, f *Failure, sc any, list []uint16) bool {
	dir, err := os.MkdirTemp("", "cqos-sim-trial-")
	if err != nil {
		t.Fatal(err)
	}

	defer os.RemoveAll(dir)

	raw, _ := json.Marshal(sc)
	cand := *f
	cand.Scenario = raw
	cand.Choices = sparse(list)
	cand.Trace = nil

	in, out := dir+"/in.json", dir+"/out.json"
	writeJSON(t, in, &cand)

	cmd := exec.Command(os.Args[0], "-test.run", "TestSim", "-test.timeout", "0")
	cmd.Env = append(os.Environ(), "SIM_MODE=replay", "SIM_IN="+in, "SIM_OUT="+out, "GORACE=halt_on_error=0")
	cmd.Run() // exit status 1 when a race was reported: the report file decides

	data, err := os.ReadFile(out)
	if err != nil {
		return false
	}

	var rep ReplayReport
	if json.Unmarshal(data, &rep) != nil {
		return false
	}

	return rep.Reproduced
}

func tail(lines []string, n int) []string {
	lines = compress(lines)

	if len(lines) <= n {
		return lines
	}

	return append([]string{fmt.Sprintf("... %d earlier records omitted ...", len(lines)-n)}, lines[len(lines)-n:]...)
}

// ReplayReport is the outcome of replaying a failure file.
type ReplayReport struct {
	Reproduced bool        `json:"reproduced"` // same rule fails again
	SameHash   bool        `json:"same_event_log_hash"`
	Hash       string      `json:"event_log_hash"`
	Violations []Violation `json:"violations"`
	Steps      int64       `json:"steps"`
	RaceBuild  bool        `json:"race_build"`
}

func workerReplay(t *testing.T) {
	f, eng, sc := loadFailure(t, os.Getenv("SIM_IN"))
	shrinkKnown, shrinkEngine = loadKnown(t, os.Getenv("SIM_KNOWN")), f.Engine

	ch := simrt.ReplayChoices(f.Choices.dense(), f.PickByPrio, f.PrioSeed)
	res, v := executeOnce(t, eng, f.Property, sc, ch, true)

	rep := &ReplayReport{
		Reproduced: hasRule(v, f.Rule),
		Hash:       fmt.Sprintf("%016x", res.Hash),
		Violations: v.Viol,
		Steps:      res.Steps,
		RaceBuild:  simrt.RaceBuild,
	}
	rep.SameHash = rep.Hash == f.Hash

	if os.Getenv("SIM_VERBOSE") != "" {
		for _, l := range res.LogText {
			fmt.Println(l)
		}

		keys := make([]string, 0)
		for _, ti := range res.Tasks {
			keys = append(keys, fmt.Sprintf("task %d %s lib=%v %s %s", ti.ID, ti.Name, ti.Lib, ti.State, ti.BlockSite))
		}

		sort.Strings(keys)

		for _, k := range keys {
			fmt.Println(k)
		}
	}

	writeJSON(t, os.Getenv("SIM_OUT"), rep)
}

func init() {
	bubbleRunner = func(f func()) {
		func() {
			defer func() {
				if r := recover(); r != nil && !strings.Contains(fmt.Sprint(r), "blocked goroutines remain") {
					panic(r)
				}
			}()

			synctest.Test(curT, func(*testing.T) { f() })
		}()
	}
}

var curT *testing.T
